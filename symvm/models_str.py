"""Prototype: symbolic str, regex matcher and exact float model (feasibility probe for C20/C16/C02d)."""
import ast
import re
import re._parser as sre_parse
import re._constants as sre_c

from . import tz as z3
from . import sv
from .sv import SInt, SBool, Sym, Unsupported, BoundExceeded, is_sym, deep_sym, mk_bool, mk_int, zint


class SStr(Sym):
    """str whose atoms are code points: python ints or Int terms."""
    __slots__ = ('a',)

    def __init__(self, atoms):
        self.a = list(atoms)

    def __len__(self):
        return len(self.a)

    def __repr__(self):
        return 'SStr(%r)' % (self.a,)


def str_atoms(x):
    if isinstance(x, SStr):
        return x.a
    if isinstance(x, str):
        return [ord(c) for c in x]
    raise Unsupported('str_atoms of ' + type(x).__name__)


def mk_str(atoms):
    out = []
    for x in atoms:
        if isinstance(x, SInt):
            x = x.e
        if z3.is_expr(x) and z3.is_int_value(x):
            x = x.as_long()
        out.append(x)
    if all(isinstance(x, int) for x in out):
        return ''.join(map(chr, out))
    return SStr(out)


def zt(x):
    return x if z3.is_expr(x) else z3.IntVal(x)


def atom_eq(vm, x, c):
    if isinstance(x, int) and isinstance(c, int):
        return x == c
    return vm.truth(mk_bool(zt(x) == zt(c)))


def atom_in_range(vm, x, lo, hi):
    if isinstance(x, int):
        return lo <= x <= hi
    return vm.truth(mk_bool(z3.And(zt(x) >= lo, zt(x) <= hi)))


# ------------------------------------------------------------------------- big constant word tables
class STableItem(Sym):
    """table[index] for a big constant table of distinct whitespace-free strings and a symbolic index."""
    __slots__ = ('table', 'index')

    def __init__(self, table, index):
        self.table, self.index = table, index


class SJoined(Sym):
    """sep.join(items) where some items are table items."""
    __slots__ = ('sep', 'items')

    def __init__(self, sep, items):
        self.sep, self.items = sep, items


_checked_tables = {}


def table_item(vm, table, k):
    ok = _checked_tables.get(id(table))
    if ok is None:
        ok = len(set(table)) == len(table) and all(x and not any(c.isspace() for c in x) for x in table)
        _checked_tables[id(table)] = ok
    if not ok:
        raise Unsupported('symbolic index into a table with duplicate / empty / spaced entries')
    n = len(table)
    if vm.truth(mk_bool(z3.Or(k.e >= n, k.e < -n))):
        raise IndexError('list index out of range')
    idx = k.e
    if vm.truth(mk_bool(idx < 0)):
        idx = z3.simplify(idx + n)
    return STableItem(table, idx)


def sm_zfill(vm, o, args, kw):
    w = args[0]
    if isinstance(w, SInt):
        lo, hi = vm.path_bounds(w.e)
        if lo is None or hi is None or hi - lo > 256:
            raise Unsupported('zfill with an unbounded symbolic width')
        w = vm.choose_int(w, lo, hi)
    a = list(str_atoms(o))
    if len(a) >= w:
        return mk_str(a)
    if a and isinstance(a[0], int) and a[0] in (43, 45):
        return mk_str([a[0]] + [48] * (w - len(a)) + a[1:])
    return mk_str([48] * (w - len(a)) + a)


# ------------------------------------------------------------------------- exact floats
class SFloat(Sym):
    """Exact IEEE double: value = sign * M * 2**e with 2**52 <= M < 2**53 (M an Int term or int), e concrete; or zero."""
    __slots__ = ('neg', 'M', 'e')

    def __init__(self, neg, M, e):
        self.neg, self.M, self.e = neg, M, e


class SDyadic(Sym):
    """Float that is exactly N * 2**-k (N Int term, |N| < 2**53): the rounding-free fast path."""
    __slots__ = ('N', 'k')

    def __init__(self, N, k):
        self.N, self.k = N, k


def pow2_exp(x):
    if isinstance(x, (int, float)) and x > 0 and float(x).is_integer():
        n = int(x)
        if n & (n - 1) == 0:
            return n.bit_length() - 1
    return None


def dyadic_div(vm, a, b):
    """a / b where b is a power of two given as python int/float; a SInt or SDyadic."""
    j = pow2_exp(b)
    if j is None:
        return None
    if isinstance(a, SDyadic):
        return SDyadic(a.N, a.k + j)
    if isinstance(a, SInt):
        if vm.truth(mk_bool(z3.And(a.e > -2 ** 53, a.e < 2 ** 53))):
            return SDyadic(a.e, j)          # int -> float is exact below 2**53; /2**j only moves the exponent
        raise Unsupported('int >= 2**53 in power-of-two float division (slow path not in prototype)')
    return None


def dyadic_int(vm, x):
    if x.k == 0:
        return mk_int(x.N)
    d = 2 ** x.k
    if vm.truth(mk_bool(x.N >= 0)):
        return mk_int(x.N / d)
    return mk_int(-((-x.N) / d))


def float_int(vm, x):
    """int(x) for an exact SFloat (truncation toward zero)."""
    M = zint(x.M)
    if x.e >= 0:
        mag = mk_int(M * (2 ** x.e))
    else:
        from .models import int_divmod
        mag = int_divmod(vm, SInt(M) if z3.is_expr(M) else M, 2 ** (-x.e))[0] if z3.is_expr(M) else M // 2 ** (-x.e)
    if x.neg:
        return mk_int(-zint(mag))
    return mag


def m_bin(vm, args, kw):
    """bin(n) for a symbolic non-negative int whose bit length is fixed by its bounds: fresh bit characters tied to n by
    one linear equation."""
    v = args[0]
    if not isinstance(v, SInt):
        return bin(*args)
    lo, hi = vm.path_bounds(v.e)
    if lo is None or lo < 0:
        if vm.truth(mk_bool(v.e < 0)):
            raise Unsupported('bin() of a negative symbolic int')
        lo = 0
    klo, khi = lo.bit_length(), (hi.bit_length() if hi is not None else 520)
    n = klo
    while n < khi and not vm.truth(mk_bool(v.e < 2 ** n)):      # fork on the bit length
        n += 1
    if hi is None and n >= khi:
        raise BoundExceeded('bin() of an int wider than 520 bits')
    if n == 0:
        return '0b0'
    return mk_str([48, 98] + [z3.BitChar(v.e, n - 1 - i, i == 0) for i in range(n)])


def rne_div(vm, num, den, name):
    """Int term q = round-half-even(num/den); num term >= 0, den python int > 0 (linear: q, r fresh)."""
    nlo, nhi = vm.path_bounds(num)
    q = vm._fresh_int(name + '_q', (nlo // den) if nlo is not None else 0, (nhi // den) if nhi is not None else None).e
    r = vm._fresh_int(name + '_r', 0, den - 1).e
    vm.add_pc(num == q * den + r)
    z3.DEFS[q.args[0]] = lambda model, num=num, den=den: z3.evaluate(num, model) // den
    z3.DEFS[r.args[0]] = lambda model, num=num, den=den: z3.evaluate(num, model) % den
    up = z3.Or(r * 2 > den, z3.And(r * 2 == den, q % 2 == 1))
    return mk_int(z3.If(up, q + 1, q))      # value selection as an ite term: no fork, no feasibility query


def int_truediv(vm, a, b):
    """CPython int/int true division, correctly rounded (finite, non-zero results in the normal range)."""
    if is_sym(b):
        raise Unsupported('division by symbolic int')
    if b <= 0:
        raise Unsupported('non-positive divisor')
    ea = zint(a)
    if vm.truth(mk_bool(ea == 0)):
        return 0.0
    neg = vm.truth(mk_bool(ea < 0))
    mag = -ea if neg else ea
    # binade: 2**52 <= mag * 2**-e / b < 2**53   <=>  b*2**(52+e) <= mag < b*2**(53+e)
    lo_, hi_ = vm.path_bounds(mag)
    e_lo = max(-140, (max(lo_, 1) // b).bit_length() - 54) if lo_ is not None else -140
    e_hi = min(300, (hi_ // b).bit_length() - 51) if hi_ is not None else 300
    for e in range(e_lo, e_hi + 1):
        lo = b * 2 ** (52 + e) if 52 + e >= 0 else None
        if e >= -52:
            cond = z3.And(mag >= b * 2 ** (52 + e), mag < b * 2 ** (53 + e))
        else:
            k = -(52 + e)
            cond = z3.And(mag * 2 ** k >= b, mag * 2 ** (k - 1) < b) if k >= 1 else None
        if cond is None:
            continue
        if vm.truth(mk_bool(cond)):
            if e >= 0:
                M = rne_div(vm, mag, b * 2 ** e, 'M')
            else:
                M = rne_div(vm, mag * 2 ** (-e), b, 'M')
            # rounding may carry to 2**53: renormalise
            if vm.truth(mk_bool(zint(M) == 2 ** 53)):
                return SFloat(neg, 2 ** 52, e + 1)
            return SFloat(neg, M, e)
    raise BoundExceeded('float binade out of modelled range')


def format_fixed(vm, x, digits):
    """'{:.<digits>f}'.format(x): round-half-even of the exact binary value at `digits` decimals."""
    if isinstance(x, float):
        return ('{:.%df}' % digits).format(x)
    scale = 10 ** digits
    M = zint(x.M)
    if x.e >= 0:
        m = mk_int(M * (2 ** x.e) * scale)
    else:
        m = rne_div(vm, M * scale, 2 ** (-x.e), 'fmt')
    # m = |x| * 10**digits rounded; render
    from .models import decimal_atoms
    whole = mk_int(zint(m) / scale) if is_sym(m) else m // scale
    frac = mk_int(zint(m) % scale) if is_sym(m) else m % scale
    wa = decimal_atoms(vm, whole) if is_sym(whole) else [ord(c) for c in str(whole)]
    fa = fixed_digits(vm, frac, digits)
    sign = [45] if x.neg and not (not is_sym(m) and m == 0) else []
    return mk_str(sign + wa + [46] + fa)


def fixed_digits(vm, v, n):
    if not is_sym(v):
        return [ord(c) for c in str(v).rjust(n, '0')]
    ds = []
    for i in range(n):
        d = vm._fresh_int('dig', 0, 9).e
        z3.DEFS[d.args[0]] = lambda model, v=v, i=i, n=n: (z3.evaluate(v.e, model) // 10 ** (n - 1 - i)) % 10
        ds.append(d)
    tot = z3.IntVal(0)
    for d in ds:
        tot = tot * 10 + d
    vm.add_pc(v.e == tot)
    return [mk_int(48 + d) if not z3.is_expr(48 + d) else (48 + d) for d in ds]


# ------------------------------------------------------------------------- regex
class SMatch:
    def __init__(self, atoms, groups, ngroups):
        self.atoms, self.g, self.n = atoms, groups, ngroups

    def groups(self):
        return tuple(mk_str(self.atoms[self.g[i][0]:self.g[i][1]]) if i in self.g else None
                     for i in range(1, self.n + 1))

    def group(self, i=0):
        return mk_str(self.atoms[self.g[i][0]:self.g[i][1]]) if i in self.g else None

    def groupdict(self):
        return {name: self.group(gid) for name, gid in self.names.items()}


_ND = []


def decimal_ranges():
    """Code point ranges matched by \\d in a str pattern without re.ASCII: every Unicode decimal digit (category Nd)."""
    if not _ND:
        start = None
        for cp in range(0x110000):
            if chr(cp).isdecimal():
                if start is None:
                    start = cp
            elif start is not None:
                _ND.append((start, cp - 1))
                start = None
    return _ND


def digit_cond(vm, x):
    t = zt(x)
    if getattr(vm, 'rx_unicode', False):
        return z3.Or([z3.And(t >= a, t <= b) for a, b in decimal_ranges()])
    return z3.And(t >= 48, t <= 57)


def cat_test(vm, x, cat):
    if cat in (sre_c.CATEGORY_DIGIT, sre_c.CATEGORY_NOT_DIGIT):
        if isinstance(x, int):
            hit = (chr(x).isdecimal() if getattr(vm, 'rx_unicode', False) else 48 <= x <= 57)
        else:
            hit = vm.truth(mk_bool(digit_cond(vm, x)))
        return hit == (cat == sre_c.CATEGORY_DIGIT)
    raise Unsupported('regex category %s' % cat)


def set_test(vm, x, items):
    """Membership of one character in a regex set as ONE decision (a single disjunction), not one fork per item."""
    negate = False
    conds = []
    for op, av in items:
        if op == sre_c.NEGATE:
            negate = True
        elif op == sre_c.LITERAL:
            conds.append(zt(x) == av)
        elif op == sre_c.RANGE:
            conds.append(z3.And(zt(x) >= av[0], zt(x) <= av[1]))
        elif op == sre_c.CATEGORY and av == sre_c.CATEGORY_DIGIT:
            if isinstance(x, int):
                conds.append(z3.TRUE if (chr(x).isdecimal() if getattr(vm, 'rx_unicode', False) else 48 <= x <= 57) else z3.FALSE)
            else:
                conds.append(digit_cond(vm, x))
        else:
            raise Unsupported('regex set item %s' % op)
    c = z3.Or(conds)
    hit = vm.truth(mk_bool(c)) if z3.is_expr(c) and not (c is z3.TRUE or c is z3.FALSE) else (c is z3.TRUE)
    return hit != negate


def rx_match(vm, items, idx, atoms, pos, groups, k):
    """Backtracking matcher: match items[idx:] at pos, then continuation k(pos, groups)."""
    if idx == len(items):
        return k(pos, groups)
    op, av = items[idx]
    n = len(atoms)
    if op == sre_c.LITERAL:
        return pos < n and atom_eq(vm, atoms[pos], av) and rx_match(vm, items, idx + 1, atoms, pos + 1, groups, k)
    if op == sre_c.NOT_LITERAL:
        return pos < n and not atom_eq(vm, atoms[pos], av) and rx_match(vm, items, idx + 1, atoms, pos + 1, groups, k)
    if op == sre_c.ANY:
        return pos < n and not atom_eq(vm, atoms[pos], 10) and rx_match(vm, items, idx + 1, atoms, pos + 1, groups, k)
    if op == sre_c.IN:
        return pos < n and set_test(vm, atoms[pos], av) and rx_match(vm, items, idx + 1, atoms, pos + 1, groups, k)
    if op == sre_c.AT:
        if av == sre_c.AT_BEGINNING or av == sre_c.AT_BEGINNING_STRING:
            ok = pos == 0
        elif av == sre_c.AT_END:
            ok = pos == n or (pos == n - 1 and atom_eq(vm, atoms[pos], 10))
        elif av == sre_c.AT_END_STRING:
            ok = pos == n
        else:
            raise Unsupported('regex anchor %s' % av)
        return ok and rx_match(vm, items, idx + 1, atoms, pos, groups, k)
    if op == sre_c.SUBPATTERN:
        gid, _, _, sub = av
        sub = list(sub)

        def after(p, g):
            g2 = dict(g)
            if gid is not None:
                g2[gid] = (pos, p)
            return rx_match(vm, items, idx + 1, atoms, p, g2, k)
        return rx_match(vm, sub, 0, atoms, pos, groups, after)
    if op == sre_c.BRANCH:
        for alt in av[1]:
            if rx_match(vm, list(alt), 0, atoms, pos, groups, lambda p, g: rx_match(vm, items, idx + 1, atoms, p, g, k)):
                return True
        return False
    if op in (sre_c.MAX_REPEAT, sre_c.MIN_REPEAT):
        lo, hi, sub = av
        sub = list(sub)
        greedy = op == sre_c.MAX_REPEAT

        def rep(count, p, g):
            def more():
                if count < hi and (hi != sre_c.MAXREPEAT or count < n + 1):
                    return rx_match(vm, sub, 0, atoms, p, g,
                                    lambda p2, g2: (p2 > p or count < lo) and rep(count + 1, p2, g2))
                return False

            def stop():
                return count >= lo and rx_match(vm, items, idx + 1, atoms, p, g, k)
            return (more() or stop()) if greedy else (stop() or more())
        return rep(0, pos, groups)
    raise Unsupported('regex op %s' % op)


def compile_rx(pattern, flags=0, vm=None):
    if isinstance(pattern, re.Pattern):
        flags = flags | (pattern.flags & ~re.UNICODE)
        pattern = pattern.pattern
    if is_sym(flags):
        raise Unsupported('symbolic regex flags')
    p = sre_parse.parse(pattern, int(flags))
    final = p.state.flags
    if final & (re.IGNORECASE | re.MULTILINE | re.DOTALL | re.LOCALE):
        raise Unsupported('regex flags %r on a symbolic string' % re.RegexFlag(final))
    if vm is not None:
        vm.rx_unicode = isinstance(pattern, str) and not (final & re.ASCII)
    return list(p), p.state.groups - 1, dict(p.state.groupdict)


def m_re_search(vm, args, kw, anchored=False):
    pattern, s = args[0], args[1]
    if not isinstance(s, SStr):
        return (re.match if anchored else re.search)(pattern, s)
    flags = args[2] if len(args) > 2 else kw.get('flags', 0)
    items, ng, names = compile_rx(pattern, flags, vm)
    atoms = s.a
    result = []
    for start in range(0, 1 if anchored else len(atoms) + 1):
        def done(p, g):
            g = dict(g)
            g[0] = (start, p)
            result.append(g)
            return True
        if rx_match(vm, items, 0, atoms, start, {}, done):
            m = SMatch(atoms, result[0], ng)
            m.names = names
            return m
    return None


# ------------------------------------------------------------------------- UTF-8
def utf8_encode(vm, s):
    """str.encode() over symbolic code points: forks on the encoded width of each symbolic code point."""
    from .sv import mk_bytes
    out = []
    for pos, x in enumerate(str_atoms(s)):
        if isinstance(x, int):
            out.extend(chr(x).encode('utf-8', 'strict'))   # raises UnicodeEncodeError on surrogates like python
            continue
        c = zt(x)
        if vm.truth(mk_bool(c < 0x80)):
            out.append(c)
        elif vm.truth(mk_bool(c < 0x800)):
            out.extend([0xC0 + c / 64, 0x80 + c % 64])
        elif vm.truth(mk_bool(c < 0x10000)):
            if vm.truth(mk_bool(z3.And(c >= 0xD800, c <= 0xDFFF))):
                raise UnicodeEncodeError('utf-8', '\ud800', pos, pos + 1, 'surrogates not allowed')
            out.extend([0xE0 + c / 4096, 0x80 + (c / 64) % 64, 0x80 + c % 64])
        else:
            out.extend([0xF0 + c / 262144, 0x80 + (c / 4096) % 64, 0x80 + (c / 64) % 64, 0x80 + c % 64])
    return mk_bytes(out)


def utf8_decode(vm, b):
    """bytes.decode('utf-8', 'strict') over symbolic bytes (exact: overlongs, surrogates and > U+10FFFF rejected)."""
    from .sv import atoms_of, Run
    a = []
    for x in atoms_of(b):
        if isinstance(x, Run):
            raise Unsupported('utf-8 decode of an opaque run')
        if z3.is_expr(x) and x.sort == z3.BV:
            x = z3.BV2Int(x)
        a.append(x)
    n = len(a)
    out = []
    i = 0

    def in_range(x, lo, hi):
        return atom_in_range(vm, x, lo, hi)

    def bad(pos, why):
        return UnicodeDecodeError('utf-8', b'?' * n, pos, min(n, pos + 1), why)
    while i < n:
        x = a[i]
        if in_range(x, 0, 0x7F):
            out.append(x)
            i += 1
            continue
        if in_range(x, 0xC2, 0xDF):
            need, lo2, hi2, base = 1, 0x80, 0xBF, 0xC0
        elif in_range(x, 0xE0, 0xEF):
            need, base = 2, 0xE0
            if atom_eq(vm, x, 0xE0):
                lo2, hi2 = 0xA0, 0xBF
            elif atom_eq(vm, x, 0xED):
                lo2, hi2 = 0x80, 0x9F
            else:
                lo2, hi2 = 0x80, 0xBF
        elif in_range(x, 0xF0, 0xF4):
            need, base = 3, 0xF0
            if atom_eq(vm, x, 0xF0):
                lo2, hi2 = 0x90, 0xBF
            elif atom_eq(vm, x, 0xF4):
                lo2, hi2 = 0x80, 0x8F
            else:
                lo2, hi2 = 0x80, 0xBF
        else:
            raise bad(i, 'invalid start byte')
        if i + 1 >= n:
            raise bad(i, 'unexpected end of data')
        if not in_range(a[i + 1], lo2, hi2):
            raise bad(i, 'invalid continuation byte')
        cp = (zt(x) - base) if not isinstance(x, int) else x - base
        cp = cp * 64 + (zt(a[i + 1]) - 0x80)
        for j in range(2, need + 1):
            if i + j >= n:
                raise bad(i, 'unexpected end of data')
            if not in_range(a[i + j], 0x80, 0xBF):
                raise bad(i, 'invalid continuation byte')
            cp = cp * 64 + (zt(a[i + j]) - 0x80)
        out.append(cp)
        i += need + 1
    return mk_str(out)


def sm_encode(vm, o, args, kw):
    enc = (args[0] if args else kw.get('encoding', 'utf-8')).lower().replace('_', '-')
    if isinstance(o, str):
        return o.encode(*args, **kw)
    if enc not in ('utf-8', 'utf8') or len(args) > 1 or 'errors' in kw:
        raise Unsupported('encode symbolic str as ' + enc)
    return utf8_encode(vm, o)


def sm_split(vm, o, args, kw):
    if isinstance(o, str) and not any(is_sym(x) for x in args):
        return o.split(*args, **kw)
    if not args or not isinstance(args[0], str) or len(args[0]) != 1 or len(args) > 1 or kw:
        raise Unsupported('split of that kind on a symbolic str')
    sep = ord(args[0])
    parts, cur = [], []
    for x in str_atoms(o):
        if atom_eq(vm, x, sep):
            parts.append(mk_str(cur))
            cur = []
        else:
            cur.append(x)
    parts.append(mk_str(cur))
    return parts


def sm_startswith(vm, o, args, kw):
    pre = args[0]
    if isinstance(pre, tuple):
        return any(sm_startswith(vm, o, [p], kw) for p in pre)
    pre = str_atoms(pre)
    a = str_atoms(o)
    if len(pre) > len(a):
        return False
    return all(atom_eq(vm, x, y) for x, y in zip(a, pre))


def sm_lower_upper(upper):
    def model(vm, o, args, kw):
        out = []
        for x in str_atoms(o):
            if isinstance(x, int):
                out.extend(ord(c) for c in (chr(x).upper() if upper else chr(x).lower()))
            elif atom_in_range(vm, x, 0, 127):
                lo, hi, d = (97, 122, -32) if upper else (65, 90, 32)
                out.append(z3.If(z3.And(zt(x) >= lo, zt(x) <= hi), zt(x) + d, zt(x)))
            else:
                raise Unsupported('case mapping of a symbolic non-ASCII character')
        return mk_str(out)
    return model


def format_braces(vm, fmt, args, kw):
    """str.format for '{}', '{0}', '{name}' with empty / 'd' / 's' specs on symbolic ints and strs."""
    import string
    out = []
    auto = 0
    for lit, field, spec, conv in string.Formatter().parse(fmt):
        out.extend(ord(c) for c in lit)
        if field is None:
            continue
        if conv is not None or spec not in ('', 'd', 's'):
            raise Unsupported('str.format spec %r on symbolic value' % (spec,))
        if field == '':
            v = args[auto]
            auto += 1
        elif field.isdigit():
            v = args[int(field)]
        elif field in kw:
            v = kw[field]
        else:
            raise Unsupported('str.format field ' + field)
        if isinstance(v, SInt):
            from .models import decimal_atoms
            out.extend(decimal_atoms(vm, v))
        elif isinstance(v, (SStr, str)):
            out.extend(str_atoms(v))
        elif is_sym(v):
            raise Unsupported('str.format of ' + type(v).__name__)
        else:
            out.extend(ord(c) for c in format(v, spec))
    return mk_str(out)


def m_re_sub(vm, args, kw):
    """re.sub(pattern, repl, string) for a constant replacement without group references, over symbolic characters."""
    pattern, repl, s = args[0], args[1], args[2]
    if not isinstance(s, SStr):
        return re.sub(*args, **kw)
    count = args[3] if len(args) > 3 else kw.get('count', 0)
    flags = args[4] if len(args) > 4 else kw.get('flags', 0)
    if not isinstance(repl, str) or '\\' in repl or is_sym(count) or set(kw) - {'count', 'flags'}:
        raise Unsupported('re.sub with that replacement / symbolic count on a symbolic string')
    count = int(count)
    items, ng, names = compile_rx(pattern, flags, vm)
    atoms = s.a
    out = []
    pos = 0
    n = len(atoms)
    rep = [ord(c) for c in repl]
    last_empty_at = -1
    done_subs = 0
    while pos <= n:
        res = []
        if count and done_subs >= count:
            out.extend(atoms[pos:])
            break

        def done(p, g, start=pos):
            res.append(p)
            return True
        if rx_match(vm, items, 0, atoms, pos, {}, done):
            end = res[0]
            if end > pos:
                out.extend(rep)
                done_subs += 1
                pos = end
                continue
            if last_empty_at != pos:
                out.extend(rep)           # empty match
                done_subs += 1
                last_empty_at = pos
        if pos < n:
            out.append(atoms[pos])
        pos += 1
    return mk_str(out)


def m_splitext(vm, args, kw):
    """posixpath.splitext on a symbolic string (CPython's genericpath._splitext with sep '/', extsep '.')."""
    p = args[0]
    if not isinstance(p, SStr):
        import posixpath
        return posixpath.splitext(p)
    a = p.a
    n = len(a)
    sep_index = -1
    for i in range(n - 1, -1, -1):
        if atom_eq(vm, a[i], 47):
            sep_index = i
            break
    dot_index = -1
    for i in range(n - 1, -1, -1):
        if atom_eq(vm, a[i], 46):
            dot_index = i
            break
    if dot_index > sep_index:
        k = sep_index + 1
        while k < dot_index:
            if not atom_eq(vm, a[k], 46):
                return mk_str(a[:dot_index]), mk_str(a[dot_index:])
            k += 1
    return mk_str(a), ''


# ------------------------------------------------------------------------- str methods
def sm_rstrip(vm, o, args, kw):
    chars = args[0] if args else None
    if chars is None or len(chars) != 1:
        raise Unsupported('rstrip of that kind')
    a = list(str_atoms(o))
    c = ord(chars)
    while a and atom_eq(vm, a[-1], c):
        a.pop()
    return mk_str(a)


def sm_endswith(vm, o, args, kw):
    if isinstance(args[0], tuple):
        return any(sm_endswith(vm, o, [p], kw) for p in args[0])
    suf = str_atoms(args[0])
    a = str_atoms(o)
    if len(suf) > len(a):
        return False
    return all(atom_eq(vm, x, y) for x, y in zip(a[len(a) - len(suf):], suf))


def sm_ljust(vm, o, args, kw):
    width, fill = args[0], (args[1] if len(args) > 1 else ' ')
    a = list(str_atoms(o))
    return mk_str(a + [ord(fill)] * max(0, width - len(a)))


def sm_format(vm, o, args, kw):
    if o == '{:.8f}' and len(args) == 1 and isinstance(args[0], (SFloat, float)):
        return format_fixed(vm, args[0], 8)
    from .sv import deep_sym
    if not deep_sym(list(args)) and not deep_sym(kw):
        return o.format(*args, **kw)
    return format_braces(vm, o, args, kw)


def m_re_fullmatch(vm, args, kw):
    pattern, s = args[0], args[1]
    if not isinstance(s, SStr):
        return re.fullmatch(*args, **kw)
    flags = args[2] if len(args) > 2 else kw.get('flags', 0)
    if isinstance(pattern, re.Pattern):
        flags = flags | (pattern.flags & ~re.UNICODE)
        pattern = pattern.pattern
    wrapped = ('(?:%s)\\Z' % pattern) if isinstance(pattern, str) else (b'(?:' + pattern + b')\\Z')
    return m_re_search(vm, [wrapped, s, flags], {}, True)


def pm_search(anchored):
    def model(vm, o, args, kw):
        if len(args) != 1 or kw:
            if not isinstance(args[0] if args else None, SStr):
                return (o.match if anchored else o.search)(*args, **kw)
            raise Unsupported('Pattern.match/search with pos/endpos on a symbolic string')
        return m_re_search(vm, [o, args[0]], {}, anchored)
    return model


def pm_fullmatch(vm, o, args, kw):
    if len(args) != 1 or kw:
        if not isinstance(args[0] if args else None, SStr):
            return o.fullmatch(*args, **kw)
        raise Unsupported('Pattern.fullmatch with pos/endpos on a symbolic string')
    return m_re_fullmatch(vm, [o, args[0]], {})


def pm_sub(vm, o, args, kw):
    return m_re_sub(vm, [o] + list(args), kw)


def install(vm):
    from . import models
    vm.models[id(bin)] = m_bin
    vm.models[id(re.fullmatch)] = m_re_fullmatch
    vm.method_models[(re.Pattern, 'match')] = pm_search(True)
    vm.method_models[(re.Pattern, 'search')] = pm_search(False)
    vm.method_models[(re.Pattern, 'fullmatch')] = pm_fullmatch
    vm.method_models[(re.Pattern, 'sub')] = pm_sub
    vm.models[id(re.sub)] = m_re_sub
    import posixpath as _pp
    vm.models[id(_pp.splitext)] = m_splitext
    vm.models[id(re.search)] = lambda vm_, a, k: m_re_search(vm_, a, k, False)
    vm.models[id(re.match)] = lambda vm_, a, k: m_re_search(vm_, a, k, True)
    for t in (SStr, str):
        vm.method_models[(t, 'rstrip')] = sm_rstrip
        vm.method_models[(t, 'endswith')] = sm_endswith
        vm.method_models[(t, 'startswith')] = sm_startswith
        vm.method_models[(t, 'ljust')] = sm_ljust
        vm.method_models[(t, 'encode')] = sm_encode
        vm.method_models[(t, 'split')] = sm_split
        vm.method_models[(t, 'lower')] = sm_lower_upper(False)
        vm.method_models[(t, 'upper')] = sm_lower_upper(True)
    vm.method_models[(str, 'format')] = sm_format
    vm.method_models[(SMatch, 'groups')] = lambda vm_, o, a, k: o.groups()
    vm.method_models[(SMatch, 'group')] = lambda vm_, o, a, k: o.group(*a)
    vm.method_models[(SMatch, 'groupdict')] = lambda vm_, o, a, k: o.groupdict()

    def sm_join(vm_, o, args, kw):
        parts = list(vm_.iterate(args[0]))
        if any(isinstance(p, STableItem) for p in parts):
            return SJoined(o, parts)
        out = []
        for i, p in enumerate(parts):
            if i:
                out.extend(str_atoms(o))
            out.extend(str_atoms(p))
        return mk_str(out)
    vm.method_models[(str, 'join')] = sm_join

    def sj_split(vm_, o, args, kw):
        if args and args[0] is not None and args[0] != o.sep:
            raise Unsupported('split of a joined word list on another separator')
        if not args and not o.sep.isspace():
            raise Unsupported('whitespace split of a word list joined with a non-space separator')
        return list(o.items)
    vm.method_models[(SJoined, 'split')] = sj_split
    for t in (SStr, str):
        vm.method_models[(t, 'zfill')] = sm_zfill
    old_str = vm.models[id(str)]

    def m_str(vm_, args, kw):
        if args and isinstance(args[0], SStr):
            return args[0]
        return old_str(vm_, args, kw)
    vm.models[id(str)] = m_str
    old_int = vm.models[id(int)]

    def m_int(vm_, args, kw):
        if args and isinstance(args[0], SDyadic):
            return dyadic_int(vm_, args[0])
        if args and isinstance(args[0], SFloat):
            return float_int(vm_, args[0])
        if args and isinstance(args[0], SStr):
            return models.int_of_ascii(vm_, args[0].a, '<sym>')
        return old_int(vm_, args, kw)
    vm.models[id(int)] = m_int
    import math

    def dyadic_parts(x):
        d = 2 ** x.k
        return x.N / d, x.N % d, d          # floor quotient, remainder in [0, d)

    def rounding(kind, native):
        def model(vm_, args, kw):
            x = args[0] if args else None
            if isinstance(x, SDyadic) and len(args) == 1 and not kw:
                if x.k == 0:
                    return mk_int(x.N)
                q, r, d = dyadic_parts(x)
                if kind == 'floor':
                    return mk_int(q)
                if kind == 'ceil':
                    return mk_int(q + z3.If(r > 0, 1, 0))
                if kind == 'trunc':
                    return dyadic_int(vm_, x)
                return mk_int(q + z3.If(r > d // 2, 1, z3.If(r == d // 2, q % 2, 0)))      # round half to even
            if isinstance(x, SInt) and len(args) == 1 and not kw:
                return x
            if deep_sym(list(args)) or deep_sym(kw):
                raise Unsupported(f'call of {kind} with symbolic args')
            return native(*args, **kw)
        return model
    vm.models[id(round)] = rounding('round', round)
    vm.models[id(math.floor)] = rounding('floor', math.floor)
    vm.models[id(math.ceil)] = rounding('ceil', math.ceil)
    vm.models[id(math.trunc)] = rounding('trunc', math.trunc)
    old_isinstance = vm.models[id(isinstance)]

    def m_isinstance(vm_, args, kw):
        o, t = args
        if isinstance(o, SStr):
            return str in (t if isinstance(t, tuple) else (t,))
        if isinstance(o, SFloat):
            return float in (t if isinstance(t, tuple) else (t,))
        return old_isinstance(vm_, args, kw)
    vm.models[id(isinstance)] = m_isinstance
    old_len = vm.models[id(len)]
    vm.models[id(len)] = lambda vm_, a, k: len(a[0].a) if isinstance(a[0], SStr) else old_len(vm_, a, k)
