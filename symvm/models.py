"""Prototype v2: models of builtins / library calls on symbolic values (feasibility probe)."""
import ast
import binascii
import builtins
import functools
import io
import itertools
import struct
import logging

from . import tz as z3

from . import sv
from .sv import (SInt, SBool, SBytes, Run, Sym, Unsupported, BoundExceeded, is_sym, deep_sym,
                mk_bool, mk_int, mk_bytes, zint, zbool, s_not, atoms_of)


def atom_val(x):
    if z3.is_expr(x):
        if x.sort == z3.BV:
            return SInt(z3.BV2Int(x), (x, 8))
        return SInt(x)
    return x


# --------------------------------------------------------------------------- bytes
def sbytes_getitem(vm, o, k):
    if not o.has_runs():
        n = len(o.a)
        if isinstance(k, slice):
            if k.step is not None:
                if is_sym(k.step):
                    raise Unsupported('symbolic step')
                if is_sym(k.start) or is_sym(k.stop):
                    raise Unsupported('symbolic slice with step')
                return mk_bytes(o.a[k])
            lo = vm.conc_index(k.start, n, True)
            hi = vm.conc_index(k.stop, n, True)
            return mk_bytes(o.a[lo:hi])
        k = vm.conc_index(k, n, False)
        return atom_val(o.a[k])
    return run_slice(vm, o, k)


def run_slice(vm, o, k):
    """Slice bytes containing opaque runs; bounds must align with atom boundaries (entailed)."""
    if not isinstance(k, slice):
        # single index: only supported inside the leading concrete/symbolic-byte prefix
        if is_sym(k):
            # a symbolic position that provably coincides with the start of a byte atom (e.g. right after a run)
            zk = zint(k)
            off = 0
            for x in o.a:
                if not isinstance(x, Run) and vm.entails(zint_(off) == zk):
                    return atom_val(x)
                off = z3.simplify(zint_(off) + zint_(x.length if isinstance(x, Run) else 1))
            if vm.entails(zk >= zint_(off)):
                raise IndexError('index out of range')
            raise Unsupported('symbolic index into bytes with runs')
        if k >= 0:
            i = 0
            for x in o.a:
                if isinstance(x, Run):
                    break
                if i == k:
                    return atom_val(x)
                i += 1
        raise Unsupported('index into run')
    if k.step is not None:
        if k.step == -1 and k.start is None and k.stop is None:
            raise Unsupported('reverse of bytes with runs')
        raise Unsupported('step slice with runs')
    total = o.length()
    lo = 0 if k.start is None else k.start
    hi = total if k.stop is None else k.stop
    # clamp like python (assume non-negative bounds)
    for b in (lo, hi):
        if is_sym(b):
            if vm.truth(mk_bool(zint(b) < 0)):
                raise Unsupported('negative symbolic slice bound with runs')
        elif b < 0:
            raise Unsupported('negative slice bound with runs')
    if vm.truth(mk_bool(zint(hi) > zint(total))):
        hi = total
    if vm.truth(mk_bool(zint(lo) > zint(hi))):
        return b''
    out = []
    off = 0  # offset (python int or z3 expr) of current atom start
    zlo, zhi = zint(lo), zint(hi)
    for x in o.a:
        ln = x.length if isinstance(x, Run) else 1
        start, end = off, z3.simplify(zint_(off) + zint_(ln))
        # atom entirely before lo or after hi?
        if vm.entails(zint_(end) <= zlo) or vm.entails(zint_(start) >= zhi):
            pass
        elif vm.entails(z3.And(zint_(start) >= zlo, zint_(end) <= zhi)):
            out.append(x)
        elif isinstance(x, Run):
            # partial overlap with a run -> sub-run (decide the relative position by forking)
            s_in = zlo if not vm.truth(mk_bool(zlo <= zint_(start))) else zint_(start)
            e_in = zhi if not vm.truth(mk_bool(zhi >= zint_(end))) else zint_(end)
            if vm.truth(mk_bool(e_in > s_in)):
                out.append(Run(x.rid, z3.simplify(zint_(x.off) + s_in - zint_(start)), z3.simplify(e_in - s_in)))
        else:
            # single byte: included iff start>=lo and start<hi
            if vm.truth(mk_bool(z3.And(zint_(start) >= zlo, zint_(start) < zhi))):
                out.append(x)
        off = end
    return mk_bytes(vm.norm_atoms(out))


def zint_(x):
    return x if z3.is_expr(x) else z3.IntVal(x)


def m_len(vm, args, kw):
    o = args[0]
    if isinstance(o, SBytes):
        return o.length()
    if isinstance(o, Sym):
        raise TypeError('object has no len()')
    if vm.is_interp_class(type(o)) and not isinstance(o, (tuple, list, dict)):
        m = vm.static_lookup(type(o), '__len__')
        if m is not None and vm.is_interp_callable(m):
            return vm.call(m, [o], {})
    return len(o)


def m_isinstance(vm, args, kw):
    o, t = args
    ts = t if isinstance(t, tuple) else (t,)
    if isinstance(o, SBytes):
        return (bytearray if o.mutable else bytes) in ts or object in ts
    if isinstance(o, SInt):
        return int in ts
    if isinstance(o, SBool):
        return bool in ts or int in ts
    return isinstance(o, t)


def m_type(vm, args, kw):
    o = args[0]
    if isinstance(o, SBytes):
        return bytearray if o.mutable else bytes
    if isinstance(o, SInt):
        return int
    if isinstance(o, SBool):
        return bool
    return type(*args)


WS = (32, 9, 10, 11, 12, 13)


def int_of_ascii(vm, atoms, what):
    """Python int(<bytes/str>) base 10 over symbolic ASCII atoms (exact rules: optional whitespace,
    optional sign, digits with single underscores between digits)."""
    a = [zint_(x) for x in atoms]

    def is_ws(c):
        return z3.Or([c == w for w in WS])

    def is_digit(c):
        return z3.And(c >= 48, c <= 57)
    i, j = 0, len(a)
    while i < j and vm.truth(mk_bool(is_ws(a[i]))):
        i += 1
    while j > i and vm.truth(mk_bool(is_ws(a[j - 1]))):
        j -= 1
    if i == j:
        raise ValueError(f'invalid literal for int() with base 10: {what}')
    neg = False
    if vm.truth(mk_bool(z3.Or(a[i] == 43, a[i] == 45))):
        neg = vm.truth(mk_bool(a[i] == 45))
        i += 1
    if i == j:
        raise ValueError(f'invalid literal for int() with base 10: {what}')
    body = a[i:j]
    if vm.truth(mk_bool(z3.And([is_digit(c) for c in body]))):
        val = z3.IntVal(0)
        for c in body:
            val = val * 10 + (c - 48)
    else:
        # underscores allowed only between digits
        val = z3.IntVal(0)
        prev_digit = False
        for idx, c in enumerate(body):
            if vm.truth(mk_bool(is_digit(c))):
                val = val * 10 + (c - 48)
                prev_digit = True
            elif prev_digit and idx + 1 < len(body) and vm.truth(mk_bool(c == 95)):
                prev_digit = False
            else:
                raise ValueError(f'invalid literal for int() with base 10: {what}')
        if not prev_digit:
            raise ValueError(f'invalid literal for int() with base 10: {what}')
    return mk_int(-val if neg else val)


def m_int(vm, args, kw):
    if not args:
        return 0
    v = args[0]
    if isinstance(v, SBytes) and len(args) > 1:
        if args[1] != 16 or v.has_runs():
            raise Unsupported('int(bytes, base) for that base')
        return int_of_hex(vm, v.a)
    if isinstance(v, SBytes):
        if v.has_runs():
            raise Unsupported('int of bytes with runs')
        return int_of_ascii(vm, v.a, '<sym>')
    if isinstance(v, SInt):
        return v
    if isinstance(v, SBool):
        return SInt(z3.If(v.e, 1, 0))
    if isinstance(v, Sym):
        raise Unsupported('int of ' + type(v).__name__)
    if vm.is_interp_class(type(v)) and len(args) == 1:
        m = vm.static_lookup(type(v), '__int__') or vm.static_lookup(type(v), '__index__')
        if m is not None and vm.is_interp_callable(m):
            return vm.call(m, [v], {})
    return int(*args, **kw)


def m_abs(vm, args, kw):
    v = args[0]
    if isinstance(v, SInt):
        return mk_int(z3.If(v.e < 0, -v.e, v.e))
    if isinstance(v, Sym):
        raise Unsupported('abs of ' + type(v).__name__)
    return abs(v)


def int_divmod(vm, a, b):
    """(a // b, a % b) for a symbolic a and a concrete positive b: fresh quotient/remainder, one linear equation."""
    if is_sym(b):
        raise Unsupported('division by symbolic int')
    if b == 0:
        raise ZeroDivisionError('integer division or modulo by zero')
    if b < 0:
        raise Unsupported('negative divisor')
    e = zint(a)
    key = ('divmod', e.tid, b)
    hit = vm.path_cache.get(key)
    if hit is not None:
        return hit
    lo, hi = vm.path_bounds(e)
    if lo is not None and hi is not None and lo // b == hi // b:
        out = (lo // b, mk_int(e - (lo // b) * b))        # the quotient is fixed by the interval
        vm.path_cache[key] = out
        return out
    q = vm._fresh_int('q', lo // b if lo is not None else None, hi // b if hi is not None else None).e
    r = vm._fresh_int('r', 0, b - 1).e
    z3.DEFS[q.args[0]] = lambda model, e=e, b=b: z3.evaluate(e, model) // b
    z3.DEFS[r.args[0]] = lambda model, e=e, b=b: z3.evaluate(e, model) % b
    vm.add_pc(e == q * b + r)
    out = (mk_int(q), mk_int(r))
    vm.path_cache[key] = out
    return out


def m_divmod(vm, args, kw):
    a, b = args
    if isinstance(a, (SInt, SBool)) or isinstance(b, (SInt, SBool)):
        return int_divmod(vm, a, b)
    return divmod(a, b)


def hex_atom_value(vm, c):
    """Value 0..15 of one hex digit atom (forks only for an unconstrained symbolic character)."""
    from . import models_str as ms
    if isinstance(c, int):
        ch = chr(c)
        if ch not in '0123456789abcdefABCDEF':
            raise ValueError('invalid literal for int() with base 16')
        return int(ch, 16)
    if c.op == 'nibchr':
        return c.args[0]
    if c.op in ('hexhi', 'hexlo') and c.sort != z3.BV:
        b = c.args[0]
        return (b / 16) if c.op == 'hexhi' else (b % 16)
    if c.sort == z3.BV:
        raise Unsupported('hex digit in the bit-vector domain')
    if ms.atom_in_range(vm, c, 48, 57):
        return c - 48
    if ms.atom_in_range(vm, c, 97, 102):
        return c - 87
    if ms.atom_in_range(vm, c, 65, 70):
        return c - 55
    raise ValueError('invalid literal for int() with base 16')


def int_of_hex(vm, atoms):
    atoms = list(atoms)
    if len(atoms) >= 2 and isinstance(atoms[0], int) and isinstance(atoms[1], int) and atoms[0] == 48 and atoms[1] in (120, 88):
        atoms = atoms[2:]
    if not atoms:
        raise ValueError('invalid literal for int() with base 16')
    # whole bytes written as hexhi/hexlo pairs combine without div/mod
    total = z3.IntVal(0)
    i = 0
    while i < len(atoms):
        a = atoms[i]
        if i + 1 < len(atoms) and z3.is_expr(a) and z3.is_expr(atoms[i + 1]) and a.op == 'hexhi' and atoms[i + 1].op == 'hexlo' \
                and a.args[0] is atoms[i + 1].args[0] and a.sort != z3.BV:
            total = total * 256 + a.args[0]
            i += 2
        else:
            total = total * 16 + hex_atom_value(vm, a)
            i += 1
    return mk_int(total)


def hex_digits_of(vm, v, upper=False):
    """Lowercase hex rendering of a symbolic int: forks on sign and digit count; fresh nibbles, one linear equation."""
    e = v.e
    key = ('hexdig', e.tid)
    hit = vm.path_cache.get(key)
    if hit is not None:
        return list(hit)
    neg = vm.truth(mk_bool(e < 0))
    mag = -e if neg else e
    lo, hi = vm.path_bounds(mag)
    k = max(1, (lo.bit_length() + 3) // 4) if lo is not None and lo > 0 else 1
    while k < 200 and not vm.truth(mk_bool(mag < 16 ** k)):
        k += 1
    if k >= 200:
        raise BoundExceeded('hex rendering wider than bound')
    if k == 1:
        atoms = [z3.NibChar(z3.simplify(mag))]
    else:
        ds = []
        for i in range(k):
            d = vm._fresh_int('nib', 1 if i == 0 else 0, 15).e
            z3.DEFS[d.args[0]] = (lambda model, mag=mag, sh=4 * (k - 1 - i): (z3.evaluate(mag, model) >> sh) & 15)
            ds.append(d)
        vm.add_pc(mag == z3.Sum([d * (16 ** (k - 1 - i)) for i, d in enumerate(ds)]))
        atoms = [z3.NibChar(d) for d in ds]
    out = ([45] if neg else []) + atoms
    vm.path_cache[key] = out
    return list(out)


def m_bool(vm, args, kw):
    return vm.truth(args[0]) if args else False


def m_str(vm, args, kw):
    if len(args) == 1 and isinstance(args[0], SInt):
        from . import models_str as ms
        return ms.mk_str(decimal_atoms(vm, args[0]))
    if len(args) == 1 and isinstance(args[0], SBool):
        return 'True' if vm.truth(args[0]) else 'False'
    if args and vm.is_interp_class(type(args[0])) and not isinstance(args[0], Sym):
        m = vm.static_lookup(type(args[0]), '__str__')
        if m is not None and vm.is_interp_callable(m):
            return vm.call(m, [args[0]], {})
    if args and deep_sym(args[0]):
        from .vm import SymText
        return SymText([args[0]])
    return str(*args, **kw)


def m_ord(vm, args, kw):
    from . import models_str as ms
    if isinstance(args[0], ms.SStr):
        if len(args[0].a) != 1:
            raise TypeError('ord() expected a character')
        x = args[0].a[0]
        return SInt(x) if z3.is_expr(x) else x
    return ord(args[0])


def m_bytes(vm, args, kw):
    if not args:
        return b''
    v = args[0]
    if isinstance(v, SBytes):
        return mk_bytes(v.a) if v.mutable else v
    if isinstance(v, (list, tuple)) or hasattr(v, '__next__'):
        return mk_bytes([x for x in vm.iterate(v)])
    if is_sym(v):
        raise Unsupported('bytes(symbolic int)')
    if vm.is_interp_class(type(v)) and not isinstance(v, (bytes, bytearray, tuple, list)):
        m = vm.static_lookup(type(v), '__bytes__')
        if m is not None and vm.is_interp_callable(m):
            return vm.call(m, [v], {})
    return bytes(*args, **kw)


def m_bytearray(vm, args, kw):
    if not args:
        return SBytes([], True)            # may later be extended with symbolic bytes (append / extend / +=)
    v = args[0]
    if isinstance(v, SBytes):
        return SBytes(v.a, True)
    if isinstance(v, (list, tuple)):
        return mk_bytes(list(v), True)
    return bytearray(*args, **kw)


def bm_append(vm, o, args, kw):
    if isinstance(o, SBytes) and o.mutable:
        x = args[0]
        o.a.append(x.e if isinstance(x, SInt) else x)
        return None
    if isinstance(o, bytearray) and not is_sym(args[0]):
        return o.append(args[0])
    raise Unsupported('append of a symbolic byte to a concrete bytearray')


def bm_extend(vm, o, args, kw):
    if isinstance(o, SBytes) and o.mutable:
        x = args[0]
        o.a.extend(atoms_of(x) if isinstance(x, (SBytes, bytes, bytearray)) else [b.e if isinstance(b, SInt) else b for b in vm.iterate(x)])
        return None
    if isinstance(o, bytearray) and not deep_sym(args):
        return o.extend(args[0])
    raise Unsupported('extend of a concrete bytearray with symbolic bytes')


def bm_startswith(vm, o, args, kw):
    """bytes.startswith / endswith(prefix) with symbolic content (one prefix, no start/end arguments)."""
    return _affix(vm, o, args, kw, True)


def bm_endswith(vm, o, args, kw):
    return _affix(vm, o, args, kw, False)


def _affix(vm, o, args, kw, front):
    if len(args) != 1 or kw or isinstance(args[0], tuple):
        raise Unsupported('startswith/endswith with a tuple or start/end on symbolic bytes')
    pre = args[0]
    if not isinstance(pre, (bytes, bytearray, SBytes)):
        raise TypeError('startswith first arg must be bytes or a tuple of bytes')
    n, m = SBytes(atoms_of(o)).length(), SBytes(atoms_of(pre)).length()
    if vm.truth(mk_bool(zint(m) > zint(n))):
        return False
    whole = mk_bytes(atoms_of(o))
    if isinstance(whole, SBytes):
        part = sbytes_getitem(vm, whole, slice(0, m, None) if front else slice(mk_int(zint(n) - zint(m)), None, None))
    else:
        part = whole[:m] if front else whole[len(whole) - m:]
    return vm.truth(vm.eq(part, mk_bytes(atoms_of(pre))))


def _partition(vm, o, args, last):
    """bytes.partition / rpartition(sep) for a one-byte separator: runs are skipped when their declared fill excludes it."""
    sep = args[0]
    if not isinstance(sep, (bytes, bytearray)) or len(sep) != 1:
        raise Unsupported('partition with a separator that is not one concrete byte')
    atoms = [atom_val(x) for x in atoms_of(o)]
    order = range(len(atoms) - 1, -1, -1) if last else range(len(atoms))
    for i in order:
        x = atoms[i]
        if isinstance(x, Run):
            fill = vm.run_fill.get(x.rid)
            if not fill or sep[0] in fill:
                raise Unsupported('partition over an opaque run whose content is not known to exclude the separator')
            continue
        if vm.truth(vm.eq(x, sep[0])):
            return (mk_bytes(atoms_of(o)[:i]), bytes(sep), mk_bytes(atoms_of(o)[i + 1:]))
    whole = mk_bytes(atoms_of(o))
    return (b'', b'', whole) if last else (whole, b'', b'')


def bm_rpartition(vm, o, args, kw):
    return _partition(vm, o, args, True)


def bm_partition(vm, o, args, kw):
    return _partition(vm, o, args, False)


def bm_join(vm, o, args, kw):
    parts = list(vm.iterate(args[0]))
    out = []
    for i, p in enumerate(parts):
        if i:
            out.extend(atoms_of(o))
        if not isinstance(p, (SBytes, bytes, bytearray)):
            raise TypeError('sequence item %d: expected a bytes-like object, %s found' % (i, type(p).__name__))
        out.extend(atoms_of(p))
    return mk_bytes(out)


def m_minmax(is_min):
    def model(vm, args, kw):
        key = kw.get('key')
        items = list(vm.iterate(args[0])) if len(args) == 1 else list(args)
        if not items:
            if 'default' in kw:
                return kw['default']
            raise ValueError('min()/max() arg is an empty sequence')
        best = items[0]
        bk = vm.call(key, [best], {}) if key else best
        for x in items[1:]:
            xk = vm.call(key, [x], {}) if key else x
            c = vm.compare(ast.Lt() if is_min else ast.Gt(), xk, bk)
            if vm.truth(c):
                best, bk = x, xk
        return best
    return model


def m_sum(vm, args, kw):
    tot = args[1] if len(args) > 1 else 0
    for x in vm.iterate(args[0]):
        tot = vm.binop(ast.Add(), tot, x)
    return tot


def m_any(vm, args, kw):
    for x in vm.iterate(args[0]):
        if vm.truth(x):
            return True
    return False


def m_all(vm, args, kw):
    for x in vm.iterate(args[0]):
        if not vm.truth(x):
            return False
    return True


def sort_list(vm, items, key, reverse):
    keyed = [(vm.call(key, [x], {}) if key else x, x) for x in items]
    out = []
    for k, x in keyed:  # stable insertion sort, forks on symbolic comparisons
        i = len(out)
        while i > 0:
            c = vm.compare(ast.Lt(), k, out[i - 1][0]) if not reverse else vm.compare(ast.Lt(), out[i - 1][0], k)
            if vm.truth(c):
                i -= 1
            else:
                break
        out.insert(i, (k, x))
    return [x for _, x in out]


def m_sorted(vm, args, kw):
    return sort_list(vm, list(vm.iterate(args[0])), kw.get('key'), kw.get('reverse', False))


def m_enumerate(vm, args, kw):
    return list(enumerate(vm.iterate(args[0]), *args[1:], **kw))


def m_zip(vm, args, kw):
    return list(zip(*[vm.iterate(a) for a in args]))


def m_reversed(vm, args, kw):
    return list(reversed(list(vm.iterate(args[0]))))


def m_list(vm, args, kw):
    return list(vm.iterate(args[0])) if args else []


def m_tuple(vm, args, kw):
    return tuple(vm.iterate(args[0])) if args else ()


def m_range(vm, args, kw):
    if deep_sym(args):
        raise Unsupported('range with symbolic bound')
    return range(*args)


def m_map(vm, args, kw):
    fn = args[0]
    return [vm.call(fn, list(xs), {}) for xs in zip(*[vm.iterate(a) for a in args[1:]])]


def m_filter(vm, args, kw):
    fn = args[0]
    return [x for x in vm.iterate(args[1]) if vm.truth(vm.call(fn, [x], {}) if fn is not None else x)]


def m_reduce(vm, args, kw):
    fn, seq = args[0], list(vm.iterate(args[1]))
    if len(args) > 2:
        acc = args[2]
    else:
        acc = seq.pop(0)
    for x in seq:
        acc = vm.call(fn, [acc, x], {})
    return acc


def m_chain_from_iterable(vm, args, kw):
    out = []
    for it in vm.iterate(args[0]):
        out.extend(vm.iterate(it))
    return out


def m_getattr(vm, args, kw):
    try:
        return vm.getattr(args[0], args[1])
    except AttributeError:
        if len(args) > 2:
            return args[2]
        raise


def m_hasattr(vm, args, kw):
    try:
        vm.getattr(args[0], args[1])
        return True
    except AttributeError:
        return False


def m_setattr(vm, args, kw):
    vm.setattr(*args)


def m_format_mod(vm, args, kw):
    """bytes/str % args for %d %i %s %x %r (enough for the anchored code).  Works on atom lists (bytes values or
    code points) so that symbolic ints render into symbolic digits in both bytes and str."""
    from . import models_str as ms
    from .vm import SymText
    fmt, vals = args
    if not isinstance(vals, tuple):
        vals = (vals,)
    is_b = isinstance(fmt, (bytes, bytearray))
    out = []
    i = 0
    vi = 0
    n = len(fmt)

    def lit(s):
        out.extend(list(s) if is_b else [ord(c) for c in s])
    while i < n:
        c = fmt[i:i + 1]
        if c != (b'%' if is_b else '%'):
            lit(c)
            i += 1
            continue
        j = i + 1
        while j < n and (fmt[j:j + 1] in ((b'0', b'1', b'2', b'3', b'4', b'5', b'6', b'7', b'8', b'9', b'.', b'-', b' ', b'+') if is_b
                                          else tuple('0123456789.- +'))):
            j += 1
        flags = fmt[i + 1:j]
        flags = flags.decode() if is_b else flags
        spec = fmt[j:j + 1]
        spec = spec.decode() if is_b else spec
        i = j + 1
        if spec == '%':
            lit(b'%' if is_b else '%')
            continue
        if vi >= len(vals):
            raise TypeError('not enough arguments for format string')
        v = vals[vi]
        vi += 1
        if spec in 'di' and not flags:
            if isinstance(v, SBool):
                v = SInt(z3.If(v.e, 1, 0))
            if isinstance(v, SInt):
                out.extend(decimal_atoms(vm, v))
            elif isinstance(v, Sym) or not isinstance(v, (int, float)):
                raise TypeError('%d format: a real number is required, not ' + type(v).__name__)
            else:
                lit(('%d' % v).encode() if is_b else '%d' % v)
        elif spec == 'x' and not flags and isinstance(v, SInt):
            out.extend(hex_digits_of(vm, v))
        elif spec == 's' and not flags:
            if is_b:
                if not isinstance(v, (bytes, bytearray, SBytes)):
                    if isinstance(v, SymText):
                        return v
                    raise TypeError("%b requires a bytes-like object, or an object that implements __bytes__, not '" +
                                    type(v).__name__ + "'")
                out.extend(atoms_of(v))
            else:
                if isinstance(v, (ms.SStr, str)):
                    out.extend(ms.str_atoms(v))
                elif isinstance(v, SInt):
                    out.extend(decimal_atoms(vm, v))
                elif deep_sym(v) or isinstance(v, SymText):
                    return SymText([fmt, vals])
                else:
                    s = vm.call(str, [v], {})
                    if not isinstance(s, str):
                        return SymText([fmt, vals])
                    lit(s)
        else:
            if deep_sym(v):
                return SymText([fmt, vals]) if not is_b else _unsup('format spec %' + flags + spec)
            s = ('%' + flags + spec) % v
            lit(s.encode() if is_b else s)
    if vi != len(vals):
        raise TypeError('not all arguments converted during string formatting')
    if is_b:
        return mk_bytes(out)
    return ms.mk_str(out)


def _unsup(msg):
    raise Unsupported(msg)


def decimal_atoms(vm, v, max_digits=80):
    """ASCII decimal rendering of a symbolic int: forks on sign and digit count; the digits are fresh symbols tied to
    the value by one linear equation (no div/mod reaches the solver), each with an evaluator for model extension."""
    e = v.e
    key = ('dec', e.tid)
    hit = vm.path_cache.get(key)
    if hit is not None:
        return list(hit)
    neg = vm.truth(mk_bool(e < 0))
    mag = -e if neg else e
    nd = 1
    while nd < max_digits and not vm.truth(mk_bool(mag < 10 ** nd)):
        nd += 1
    if nd >= max_digits:
        raise BoundExceeded('decimal rendering wider than bound')
    if nd == 1:
        atoms = [z3.simplify(48 + mag)]
    else:
        ds = []
        for i in range(nd):
            d = vm._fresh_int('dig', 1 if i == 0 else 0, 9).e
            z3.DEFS[d.args[0]] = (lambda model, mag=mag, p=10 ** (nd - 1 - i): (z3.evaluate(mag, model) // p) % 10)
            ds.append(d)
        tot = z3.IntVal(0)
        for d in ds:
            tot = tot * 10 + d
        vm.add_pc(mag == tot)
        atoms = [48 + d for d in ds]
    out = ([45] if neg else []) + atoms
    vm.path_cache[key] = out
    return list(out)


# --------------------------------------------------------------------------- method models
def bm_find(vm, o, args, kw):
    sub = args[0]
    if isinstance(sub, (int, SInt)):
        sub = [sub]
    else:
        sub = [atom_val(x) for x in atoms_of(sub)]
    a = [atom_val(x) for x in atoms_of(o)]
    if any(isinstance(x, Run) for x in a) and len(sub) == 1 and isinstance(sub[0], int):
        # one concrete byte searched in bytes with runs anywhere: runs are skipped when their declared fill excludes the byte
        start = args[1] if len(args) > 1 and args[1] is not None else 0
        stop = args[2] if len(args) > 2 else None
        region = o if (not is_sym(start) and start == 0 and stop is None) else run_slice(vm, o, slice(start, stop))
        off = 0
        for x in atoms_of(region):
            x = atom_val(x)
            if isinstance(x, Run):
                fill = vm.run_fill.get(x.rid)
                if not fill or sub[0] in fill:
                    raise Unsupported('find in an opaque run whose content is not known to exclude the pattern')
                off = z3.simplify(zint_(off) + zint_(x.length))
            else:
                if vm.truth(vm.eq(x, sub[0])):
                    return mk_int(z3.simplify(zint_(zint(start)) + zint_(off)))
                off = z3.simplify(zint_(off) + 1)
        return -1
    if any(isinstance(x, Run) for x in a):
        # supported shape: concrete/symbolic bytes followed by trailing runs whose declared fill cannot contain `sub`
        k = 0
        while k < len(a) and not isinstance(a[k], Run):
            k += 1
        tail = a[k:]
        if not all(isinstance(x, Run) for x in tail) or not all(isinstance(x, int) for x in sub):
            raise Unsupported('find in bytes with runs in the middle')
        for r in tail:
            fill = vm.run_fill.get(r.rid)
            if not fill or any(b in fill for b in sub):
                raise Unsupported('find in an opaque run whose content is not known to exclude the pattern')
        a = a[:k]
    start = args[1] if len(args) > 1 else 0
    if is_sym(start):
        raise Unsupported('find with symbolic start')
    m = len(sub)
    for i in range(start, len(a) - m + 1):
        ok = True
        for j in range(m):
            if not vm.truth(vm.eq(a[i + j], sub[j])):
                ok = False
                break
        if ok:
            return i
    return -1


def hex_atoms(vm, o):
    out = []
    for x in atoms_of(o):
        if isinstance(x, Run):
            raise Unsupported('hexlify of an opaque run')
        if isinstance(x, int):
            out.extend(('%02x' % x).encode())
            continue
        out.extend([z3.HexDigit(x, True), z3.HexDigit(x, False)])
    return out


def m_hexlify(vm, args, kw):
    if isinstance(args[0], SBytes):
        return mk_bytes(hex_atoms(vm, args[0]))
    if is_sym(args[0]):
        raise TypeError('a bytes-like object is required')
    return binascii.hexlify(*args)


def m_unhexlify(vm, args, kw):
    from . import models_str as ms
    v = args[0]
    if isinstance(v, (ms.SStr,)):
        atoms = list(v.a)
    elif isinstance(v, SBytes):
        atoms = list(v.a)
    else:
        return binascii.unhexlify(*args) if not isinstance(v, str) else bytes.fromhex(v)
    if len(atoms) % 2:
        raise binascii.Error('Odd-length string')
    out = []
    for hi, lo in zip(atoms[::2], atoms[1::2]):
        if z3.is_expr(hi) and z3.is_expr(lo) and hi.op == 'hexhi' and lo.op == 'hexlo' and hi.args[0] is lo.args[0]:
            out.append(hi.args[0])        # the two digits of one symbolic byte: invert without forking
            continue
        nib = []
        for c in (hi, lo):
            if isinstance(c, int):
                ch = chr(c)
                if ch not in '0123456789abcdefABCDEF':
                    raise binascii.Error('Non-hexadecimal digit found')
                nib.append(int(ch, 16))
            elif c.op == 'nibchr':
                nib.append(c.args[0])
            else:
                c = ms.zt(c)
                if ms.atom_in_range(vm, c, 48, 57):
                    nib.append(c - 48)
                elif ms.atom_in_range(vm, c, 97, 102):
                    nib.append(c - 87)
                elif ms.atom_in_range(vm, c, 65, 70):
                    nib.append(c - 55)
                else:
                    raise binascii.Error('Non-hexadecimal digit found')
        out.append(nib[0] * 16 + nib[1])
    return mk_bytes(out)


def bm_hex(vm, o, args, kw):
    if isinstance(o, SBytes):
        from . import models_str as ms
        if args or kw:
            raise Unsupported('bytes.hex with separator on symbolic bytes')
        return ms.mk_str(hex_atoms(vm, o))
    return o.hex(*args)


def bm_decode(vm, o, args, kw):
    if isinstance(o, SBytes):
        from . import models_str as ms
        enc = (args[0] if args else kw.get('encoding', 'utf-8')).lower().replace('_', '-')
        if enc not in ('utf-8', 'utf8') or len(args) > 1 or 'errors' in kw:
            raise Unsupported('decode symbolic bytes as ' + enc)
        return ms.utf8_decode(vm, o)
    return o.decode(*args, **kw)


def lm_append(vm, o, args, kw):
    o.append(args[0])


def lm_sort(vm, o, args, kw):
    o[:] = sort_list(vm, list(o), kw.get('key'), kw.get('reverse', False))


def lm_remove(vm, o, args, kw):
    for i, x in enumerate(o):
        if vm.truth(vm.eq(x, args[0])):
            del o[i]
            return
    raise ValueError('list.remove(x): x not in list')


def lm_index(vm, o, args, kw):
    from . import models_str as ms
    if isinstance(args[0], ms.STableItem) and args[0].table is o:
        return SInt(args[0].index)
    for i, x in enumerate(o):
        if vm.truth(vm.eq(x, args[0])):
            return i
    raise ValueError('x is not in list')


def lm_extend(vm, o, args, kw):
    o.extend(vm.iterate(args[0]))


def lm_pop(vm, o, args, kw):
    if args and is_sym(args[0]):
        return o.pop(vm.conc_index(args[0], len(o), False))
    return o.pop(*args)


def lm_insert(vm, o, args, kw):
    o.insert(*args)


def const_char_table_get(vm, o, key):
    """dict {1-char str: int} with a symbolic 1-char key: (found?, value term) without forking per entry."""
    from . import models_str as ms
    if not isinstance(key, ms.SStr) or len(key.a) != 1 or not o or len(o) > 4096:
        return None
    ks = list(o.keys())
    if not all(isinstance(k, str) and len(k) == 1 for k in ks) or not all(isinstance(v, int) and not isinstance(v, bool) for v in o.values()):
        return None
    c = ms.zt(key.a[0])
    if c.op == 'select' and all(chr(v) in o for v in c.args[1]):
        # the key was itself read from a constant table: compose the two tables (no decision, no nested ite chains)
        mapped = [o[chr(v)] for v in c.args[1]]
        if mapped == list(range(len(mapped))):
            return True, SInt(c.args[0])
        return True, SInt(z3.Select(c.args[0], mapped))
    found = z3.Or([c == ord(k) for k in ks])
    if not vm.truth(mk_bool(found)):
        return False, None
    val = z3.IntVal(o[ks[-1]])
    for k in reversed(ks[:-1]):
        val = z3.If(c == ord(k), o[k], val)
    t = SInt(val)
    vals = list(o.values())
    val.lo, val.hi = (min(vals), max(vals)) if val.lo is None else (val.lo, val.hi)
    return True, t


def dm_get(vm, o, args, kw):
    from .vm import MISSING
    hit = const_char_table_get(vm, o, args[0])
    if hit is not None:
        return hit[1] if hit[0] else (args[1] if len(args) > 1 else None)
    r = vm.dict_find(o, args[0])
    if r is MISSING:
        return args[1] if len(args) > 1 else None
    return r


def dm_items(vm, o, args, kw):
    from .vm import SKey
    return [(k.v if isinstance(k, SKey) else k, v) for k, v in o.items()]


def dm_keys(vm, o, args, kw):
    from .vm import SKey
    return [k.v if isinstance(k, SKey) else k for k in o.keys()]


def dm_values(vm, o, args, kw):
    return list(o.values())


def dm_pop(vm, o, args, kw):
    from .vm import SKey
    for k2 in list(o.keys()):
        if vm.truth(vm.eq(k2.v if isinstance(k2, SKey) else k2, args[0])):
            return o.pop(k2)
    if len(args) > 1:
        return args[1]
    raise KeyError(args[0])


def dm_update(vm, o, args, kw):
    for k, v in (dm_items(vm, args[0], (), {}) if args else []):
        vm.dict_set(o, k, v)
    for k, v in kw.items():
        o[k] = v


def im_bit_length(vm, o, args, kw):
    """int.bit_length() of a symbolic int with known bounds: a value (sum of threshold tests), not a fork."""
    if not isinstance(o, SInt):
        return o.bit_length()
    lo, hi = z3.bounds(o.e)
    if lo is None or hi is None:
        raise Unsupported('bit_length of an unbounded symbolic int')
    m = max(abs(lo), abs(hi)).bit_length()
    mag = z3.If(o.e < 0, -o.e, o.e) if lo < 0 else o.e
    return mk_int(z3.Sum([z3.If(mag >= 2 ** i, 1, 0) for i in range(m)]))


def im_to_bytes(vm, o, args, kw):
    length = args[0] if args else kw.get('length', 1)
    order = args[1] if len(args) > 1 else kw.get('byteorder', 'big')
    signed = kw.get('signed', False)
    if not isinstance(o, SInt) and not is_sym(length):
        return o.to_bytes(*args, **kw)
    if isinstance(length, SInt):
        lo, hi = z3.bounds(length.e)
        if lo is None or hi is None or hi - lo > 64:
            raise Unsupported('to_bytes with an unbounded symbolic length')
        length = vm.choose_int(length, lo, hi)
    if length < 0:
        raise ValueError('length argument must be non-negative')
    e = zint(o)
    if signed:
        half = 256 ** length // 2
        if vm.truth(mk_bool(z3.Or(e < -half, e >= half))) or length == 0:
            if length == 0 and not vm.truth(mk_bool(e != 0)):
                return b''
            raise OverflowError('int too big to convert')
        if vm.truth(mk_bool(e < 0)):
            e = e + 256 ** length
    elif vm.truth(mk_bool(z3.Or(e < 0, e >= 256 ** length))):
        raise OverflowError('int too big to convert')
    if length == 0:
        return b''
    atoms = list(split_bytes(vm, e, length))
    if order == 'big':
        atoms.reverse()
    return mk_bytes(atoms)


def m_int_from_bytes(vm, args, kw):
    b = args[0]
    order = args[1] if len(args) > 1 else kw.get('byteorder', 'big')
    if kw.get('signed'):
        raise Unsupported('from_bytes signed')
    if not isinstance(b, SBytes):
        return int.from_bytes(*args, **kw)
    if b.has_runs():
        raise Unsupported('from_bytes on runs')
    atoms = list(b.a)
    if order == 'little':
        atoms.reverse()
    if all(z3.is_expr(x) and False for x in atoms):
        pass
    w = 8 * len(atoms)
    def b8(x):
        if z3.is_expr(x) and x.sort == z3.BV:
            return x
        return z3.BitVecVal(x, 8) if isinstance(x, int) else z3.Int2BV(x, 8)
    bvs = [b8(x) for x in atoms]
    bv = z3.Concat(bvs) if len(bvs) > 1 else bvs[0]
    if all(z3.is_expr(x) for x in atoms):
        whole = vm.path_cache.get(('unsplit', tuple(x.tid for x in reversed(atoms))))
        if whole is not None:
            return mk_int(whole)
    if any(z3.is_expr(x) and x.sort == z3.BV for x in atoms):
        return SInt(z3.BV2Int(bv), (bv, w))
    val = z3.IntVal(0)
    for x in atoms:
        val = val * 256 + zint_(x)
    val = z3.simplify(val)
    if len(atoms) > 1 and all(z3.is_expr(x) and x.sort != z3.BV for x in atoms) and z3.is_expr(val):
        # remember the decomposition: to_bytes of this very term gives the same byte symbols back (no second set of
        # byte variables whose equality with the first would need a uniqueness-of-representation proof)
        le = list(reversed(atoms))
        vm.path_cache.setdefault(('split', val.tid, len(atoms)), le)
        vm.path_cache.setdefault(('unsplit', tuple(x.tid for x in le)), val)
    return SInt(val, (bv, w))


# --------------------------------------------------------------------------- struct / BytesIO
class SymBytesIO:
    """Pure model of io.BytesIO over SBytes (append/read only as used by BCDataStream)."""

    def __init__(self, vm, data=None):
        self.atoms = list(atoms_of(data)) if data is not None else []
        self.pos = 0          # position in *bytes* (int or z3 expr)
        self.closed = False

    def getvalue(self):
        return mk_bytes(self.atoms)

    def close(self):      # real finalizers (__del__) of lbry classes run natively at GC time
        self.closed = True


def bio_new(vm, args, kw):
    return SymBytesIO(vm, args[0] if args else None)


def bio_write(vm, o, args, kw):
    data = args[0]
    total = SBytes(o.atoms).length()
    ln = SBytes(atoms_of(data)).length()
    if vm.entails(zint(o.pos) == zint(total)):
        o.atoms.extend(atoms_of(data))
    else:
        # overwrite / write past a position inside the buffer: head + data + tail (zero fill when beyond the end)
        if vm.truth(mk_bool(zint(o.pos) > zint(total))):
            gap = mk_int(zint(o.pos) - zint(total))
            if is_sym(gap):
                raise Unsupported('BytesIO write beyond the end at a symbolic distance')
            o.atoms.extend([0] * gap)
            o.atoms.extend(atoms_of(data))
        else:
            whole = mk_bytes(o.atoms)
            head = sbytes_getitem(vm, whole, slice(0, o.pos, None)) if isinstance(whole, SBytes) else whole[:o.pos]
            end = mk_int(zint(o.pos) + zint(ln))
            if vm.truth(mk_bool(zint(end) >= zint(total))):
                tail = b''
            else:
                tail = sbytes_getitem(vm, whole, slice(end, None, None)) if isinstance(whole, SBytes) else whole[end:]
            o.atoms = list(atoms_of(head)) + list(atoms_of(data)) + list(atoms_of(tail))
    o.pos = mk_int(zint(o.pos) + zint(ln))
    return ln


def bio_writelines(vm, o, args, kw):
    for d in vm.iterate(args[0]):
        bio_write(vm, o, [d], {})


def bio_read(vm, o, args, kw):
    n = args[0] if args else None
    whole = SBytes(o.atoms)
    total = whole.length()
    if n is None or (not is_sym(n) and n < 0):
        end = total
    else:
        end = mk_int(zint(o.pos) + zint(n))
        if vm.truth(mk_bool(zint(end) > zint(total))):
            end = total
    if not whole.has_runs() and not is_sym(o.pos) and not is_sym(end):
        r = mk_bytes(o.atoms[o.pos:end])
    else:
        r = sbytes_getitem(vm, whole, slice(o.pos, end, None)) if isinstance(whole, SBytes) else b''
    o.pos = end
    return r


def bio_getvalue(vm, o, args, kw):
    return o.getvalue()


def bio_seek(vm, o, args, kw):
    whence = args[1] if len(args) > 1 else 0
    if whence == 0:
        o.pos = args[0]
    elif whence == 2:
        o.pos = mk_int(zint(SBytes(o.atoms).length() if o.atoms else 0) + zint(args[0]))
    elif whence == 1:
        o.pos = mk_int(zint(o.pos) + zint(args[0]))
    else:
        raise ValueError('invalid whence')
    return o.pos


def bio_truncate(vm, o, args, kw):
    pos = args[0] if args and args[0] is not None else o.pos
    whole = mk_bytes(o.atoms)
    cut = sbytes_getitem(vm, whole, slice(0, pos, None)) if isinstance(whole, SBytes) else whole[:pos]
    o.atoms = list(atoms_of(cut))
    return pos


def bio_getbuffer(vm, o, args, kw):
    return mk_bytes(o.atoms)


def bio_flush(vm, o, args, kw):
    return None


def bio_close(vm, o, args, kw):
    o.closed = True


def bio_tell(vm, o, args, kw):
    return o.pos


STRUCT_FMT = {'B': (1, False), 'H': (2, False), 'I': (4, False), 'Q': (8, False),
              'b': (1, True), 'h': (2, True), 'i': (4, True), 'q': (8, True)}


def parse_fmt(fmt):
    if isinstance(fmt, bytes):
        fmt = fmt.decode()
    order = 'little'
    if fmt and fmt[0] in '<>=!@':
        order = 'big' if fmt[0] in '>!' else 'little'
        fmt = fmt[1:]
    items = []
    for c in fmt:
        if c not in STRUCT_FMT:
            raise Unsupported('struct format ' + c)
        items.append(STRUCT_FMT[c])
    return order, items


def struct_pack(vm, fmt, vals):
    order, items = parse_fmt(fmt)
    if len(items) != len(vals):
        raise struct.error(f'pack expected {len(items)} items for packing (got {len(vals)})')
    out = []
    for (size, signed), v in zip(items, vals):
        if isinstance(v, SInt):
            lo, hi = (-(1 << (8 * size - 1)), (1 << (8 * size - 1)) - 1) if signed else (0, (1 << 8 * size) - 1)
            if vm.truth(mk_bool(z3.Or(v.e < lo, v.e > hi))):
                raise struct.error('argument out of range')
            e = v.e
            if signed:
                e = z3.If(e < 0, e + (1 << 8 * size), e)
            atoms = split_bytes(vm, e, size)
            if order == 'big':
                atoms.reverse()
            out.extend(atoms)
        elif isinstance(v, Sym):
            raise struct.error('required argument is not an integer')
        else:
            out.extend(struct.pack(('<' if order == 'little' else '>') +
                                   [k for k, val in STRUCT_FMT.items() if val == (size, signed)][0], v))
    return mk_bytes(out)


def explode_runs(vm, atoms, limit=64):
    """Bytes read out of the middle of an opaque run: the run's content is uninterpreted, so byte k of run R is a
    symbolic byte named by (R, k) - the same byte whenever it is read again, and reported to the native replay, which
    plants its model value at that offset of the run's content."""
    out = []
    for x in atoms:
        if not isinstance(x, Run):
            out.append(x)
            continue
        if z3.is_expr(x.length):
            lo, hi = vm.path_bounds(x.length)
            if lo is None or lo != hi:
                raise Unsupported('fixed-width read from an opaque run of symbolic length')
            n = lo
        else:
            n = x.length
        if n > limit:
            raise Unsupported('fixed-width read of more than %d bytes from an opaque run' % limit)
        for i in range(n):
            off = z3.simplify(zint_(x.off) + i)
            key = ('runbyte', x.rid, off.tid if z3.is_expr(off) else off)
            b = vm.path_cache.get(key)
            if b is None:
                b = vm._fresh_int(f'runbyte:{x.rid}', 0, 255).e
                vm.path_cache[key] = b
                vm.run_bytes.append((x.rid, off, b))
            out.append(b)
    return out


def struct_unpack(vm, fmt, data):
    order, items = parse_fmt(fmt)
    need = sum(s for s, _ in items)
    atoms = atoms_of(data)
    if isinstance(data, SBytes) and data.has_runs():
        atoms = explode_runs(vm, vm.norm_atoms(list(atoms)))
    if len(atoms) != need:
        raise struct.error(f'unpack requires a buffer of {need} bytes')
    out = []
    i = 0
    for size, signed in items:
        chunk = atoms[i:i + size]
        i += size
        if order == 'big':
            chunk = chunk[::-1]
        whole = None
        if not signed and all(z3.is_expr(x) for x in chunk):
            whole = vm.path_cache.get(('unsplit', tuple(x.tid for x in chunk)))
        if whole is not None:
            v = mk_int(whole)
        elif all(isinstance(x, int) for x in chunk):
            v = int.from_bytes(bytes(chunk), 'little', signed=signed)
        else:
            e = z3.IntVal(0)
            for j, x in enumerate(chunk):
                e = e + zint_(x) * (256 ** j)
            if signed:
                e = z3.If(e >= (1 << (8 * size - 1)), e - (1 << 8 * size), e)
            v = mk_int(e)
        out.append(v)
    return tuple(out)


def split_bytes(vm, e, size):
    """Little-endian bytes of a term known to lie in [0, 256**size): fresh byte symbols tied to e by one
    linear equation (no div/mod for the solver); the symbols carry an evaluator for model extension."""
    if size == 1:
        return [e]
    key = ('split', e.tid, size)
    cached = vm.path_cache.get(key)
    if cached is not None:
        return cached
    atoms = []
    for i in range(size):
        b = vm._fresh_int('byte', 0, 255).e
        z3.DEFS[b.args[0]] = (lambda model, e=e, i=i: (z3.evaluate(e, model) >> (8 * i)) & 255)
        atoms.append(b)
    total = z3.IntVal(0)
    for i, b in enumerate(atoms):
        total = total + b * (256 ** i)
    vm.add_pc(e == total)
    vm.path_cache[key] = atoms
    vm.path_cache[('unsplit', tuple(a.tid for a in atoms))] = e     # lets unpack/from_bytes return e itself
    return atoms


def m_struct_pack(vm, args, kw):
    return struct_pack(vm, args[0], args[1:])


def m_struct_unpack(vm, args, kw):
    return struct_unpack(vm, args[0], args[1])


def sm_pack(vm, o, args, kw):
    return struct_pack(vm, o.format, args)


def sm_unpack(vm, o, args, kw):
    return struct_unpack(vm, o.format, args[0])


# --------------------------------------------------------------------------- install
def install(vm):
    M = vm.models
    for fn, model in [
        (len, m_len), (abs, m_abs), (divmod, m_divmod), (isinstance, m_isinstance), (type, m_type), (int, m_int), (bool, m_bool), (str, m_str),
        (ord, m_ord), (bytes, m_bytes), (bytearray, m_bytearray), (min, m_minmax(True)), (max, m_minmax(False)),
        (sum, m_sum), (any, m_any), (all, m_all), (sorted, m_sorted), (enumerate, m_enumerate), (zip, m_zip),
        (reversed, m_reversed), (list, m_list), (tuple, m_tuple), (range, m_range), (map, m_map),
        (filter, m_filter), (functools.reduce, m_reduce), (getattr, m_getattr), (hasattr, m_hasattr),
        (setattr, m_setattr), (itertools.chain.from_iterable, m_chain_from_iterable),
        (int.from_bytes, m_int_from_bytes), (struct.pack, m_struct_pack), (struct.unpack, m_struct_unpack),
        (io.BytesIO, bio_new),
    ]:
        M[id(fn)] = model
    vm._keepalive = [itertools.chain.from_iterable, int.from_bytes]
    vm.models_by_name = {'%format': object()}
    M[id(vm.models_by_name['%format'])] = m_format_mod
    MM = vm.method_models
    for t in (SBytes, bytes, bytearray):
        MM[(t, 'find')] = bm_find
        MM[(t, 'hex')] = bm_hex
        MM[(t, 'decode')] = bm_decode
        MM[(t, 'join')] = bm_join
        MM[(t, 'startswith')] = bm_startswith
        MM[(t, 'partition')] = bm_partition
        MM[(t, 'rpartition')] = bm_rpartition
        MM[(t, 'endswith')] = bm_endswith
    for t in (SBytes, bytearray):
        MM[(t, 'append')] = bm_append
        MM[(t, 'extend')] = bm_extend
    for name, model in [('append', lm_append), ('sort', lm_sort), ('remove', lm_remove), ('index', lm_index),
                        ('extend', lm_extend), ('pop', lm_pop), ('insert', lm_insert)]:
        MM[(list, name)] = model
    for name, model in [('get', dm_get), ('items', dm_items), ('keys', dm_keys), ('values', dm_values),
                        ('pop', dm_pop), ('update', dm_update)]:
        MM[(dict, name)] = model
    MM[(SInt, 'to_bytes')] = im_to_bytes
    MM[(SInt, 'bit_length')] = im_bit_length
    vm.static_models[(int, 'from_bytes')] = m_int_from_bytes
    M[id(binascii.hexlify)] = m_hexlify
    M[id(binascii.unhexlify)] = m_unhexlify
    M[id(bytes.fromhex)] = m_unhexlify
    vm.static_models[(bytes, 'fromhex')] = m_unhexlify
    vm._keepalive.append(bytes.fromhex)
    MM[(int, 'to_bytes')] = im_to_bytes
    for name, model in [('write', bio_write), ('writelines', bio_writelines), ('read', bio_read),
                        ('getvalue', bio_getvalue), ('seek', bio_seek), ('tell', bio_tell), ('truncate', bio_truncate),
                        ('getbuffer', bio_getbuffer), ('flush', bio_flush), ('close', bio_close)]:
        MM[(SymBytesIO, name)] = model
    MM[(struct.Struct, 'pack')] = sm_pack
    MM[(struct.Struct, 'unpack')] = sm_unpack
    # logging / metrics are no-op sinks
    import prometheus_client
    vm.noop_types = (logging.Logger, prometheus_client.metrics.MetricWrapperBase)
