"""Prototype v2 symbolic values (feasibility probe, not framework code)."""
from . import tz as z3

_vm = None  # current VM (set by VM.explore)


def cur():
    return _vm


class Unsupported(BaseException):
    pass


class BoundExceeded(BaseException):
    pass


class Sym:
    pass


def zint(x):
    if isinstance(x, SInt):
        return x.e
    if z3.is_expr(x):
        return x
    if isinstance(x, bool):
        return z3.IntVal(int(x))
    if isinstance(x, int):
        return z3.IntVal(x)
    raise Unsupported(f'zint of {type(x).__name__}')


class SBool(Sym):
    __slots__ = ('e',)

    def __init__(self, e):
        self.e = e

    def __bool__(self):
        return cur().branch(self)

    def __repr__(self):
        return f'SBool({self.e})'


def mk_bool(e):
    e = z3.simplify(e)
    if z3.is_true(e):
        return True
    if z3.is_false(e):
        return False
    return SBool(e)


def zbool(x):
    if isinstance(x, SBool):
        return x.e
    if isinstance(x, bool):
        return z3.BoolVal(x)
    raise Unsupported(f'zbool of {type(x).__name__}')


def s_not(x):
    if isinstance(x, SBool):
        return mk_bool(z3.Not(x.e))
    return not x


class SInt(Sym):
    """Python int with symbolic value (z3 Int term); lo/hi are optional known bounds."""
    __slots__ = ('e', 'bv')

    def __init__(self, e, bv=None):
        self.e = e
        self.bv = bv  # optional (BitVecRef, width): unsigned bit-vector view

    def __repr__(self):
        return f'SInt({self.e})'

    # arithmetic (used by models; the interpreter dispatches through binop())
    def __index__(self):
        raise Unsupported('native code needs a concrete int')

    __int__ = __index__

    def __hash__(self):
        raise Unsupported('hash of symbolic int')


def mk_int(e):
    e = z3.simplify(e)
    if z3.is_int_value(e):
        return e.as_long()
    return SInt(e)


class Run:
    """Opaque run of bytes: content uninterpreted, length symbolic (z3 Int term or int)."""
    __slots__ = ('rid', 'off', 'length')

    def __init__(self, rid, off, length):
        self.rid = rid
        self.off = off
        self.length = length

    def __repr__(self):
        return f'Run({self.rid},{self.off},{self.length})'


class SBytes(Sym):
    """bytes whose atoms are ints, z3 Int terms (one byte) or Run objects."""
    __slots__ = ('a', 'mutable')

    def __init__(self, atoms, mutable=False):
        self.a = list(atoms)
        self.mutable = mutable

    def has_runs(self):
        return any(isinstance(x, Run) for x in self.a)

    def concrete_len(self):
        return not self.has_runs()

    def __len__(self):
        if self.has_runs():
            raise Unsupported('native len of bytes with runs')
        return len(self.a)

    def length(self):
        n = 0
        sym = []
        for x in self.a:
            if isinstance(x, Run):
                if isinstance(x.length, int):
                    n += x.length
                else:
                    sym.append(x.length)
            else:
                n += 1
        if not sym:
            return n
        return mk_int(z3.IntVal(n) + z3.Sum(sym))

    def __repr__(self):
        return f'SBytes({self.a})'

    def __hash__(self):
        raise Unsupported('hash of symbolic bytes')


def atoms_of(x):
    if isinstance(x, SBytes):
        return x.a
    if isinstance(x, (bytes, bytearray)):
        return list(x)
    raise Unsupported(f'atoms_of {type(x).__name__}')


def mk_bytes(atoms, mutable=False):
    atoms = list(atoms)
    out = []
    for x in atoms:
        if isinstance(x, SInt):
            x = x.e
        if z3.is_expr(x):
            x = z3.simplify(x)
            if z3.is_int_value(x):
                x = x.as_long()
        out.append(x)
    if all(isinstance(x, int) for x in out):
        return bytearray(out) if mutable else bytes(out)
    return SBytes(out, mutable)


def is_sym(x):
    return isinstance(x, Sym)


def deep_sym(x, depth=0):
    if isinstance(x, Sym):
        return True
    if depth > 4:
        return False
    if isinstance(x, (list, tuple, set, frozenset)):
        return any(deep_sym(i, depth + 1) for i in x)
    if isinstance(x, dict):
        return any(deep_sym(k, depth + 1) or deep_sym(v, depth + 1) for k, v in x.items())
    return False
