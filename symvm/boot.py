"""Bootstrap shim: must be imported before anything from /repo.

- puts the solver wheels (/verif/.deps, built from the offline wheelhouse) and /repo on sys.path,
- makes `lbry.*` importable in this sandbox (protobuf python implementation, stand-ins for three
  absent third-party modules that the anchored code never calls),
- never writes into /repo (no bytecode files).
Nothing in /repo is modified; all stubbing happens in the check process.
"""
import os
import subprocess
import sys
import types
import warnings

VERIF = os.path.dirname(os.path.dirname(os.path.abspath(__file__)))
REPO = os.environ.get('VERIF_REPO', '/repo')
DEPS = os.path.join(VERIF, '.deps')
WHEELS = '/opt/veriftools/wheels'

os.environ['LBRY_SDK_VERIF'] = '1'
os.environ.setdefault('PROTOCOL_BUFFERS_PYTHON_IMPLEMENTATION', 'python')
os.environ['PYTHONDONTWRITEBYTECODE'] = '1'
sys.dont_write_bytecode = True
warnings.filterwarnings('ignore')
sys.setrecursionlimit(400000)     # the interpreter is recursive; vcheck raises the stack limit (ulimit -s)


def ensure_deps():
    """pip-install z3-solver and cvc5 from the offline wheelhouse into /verif/.deps (idempotent)."""
    marker = os.path.join(DEPS, '.ok')
    if not os.path.exists(marker):
        os.makedirs(DEPS, exist_ok=True)
        lock = os.path.join(DEPS, '.lock')
        import fcntl
        with open(lock, 'w') as lf:
            fcntl.flock(lf, fcntl.LOCK_EX)
            if not os.path.exists(marker):
                subprocess.check_call(
                    [sys.executable, '-m', 'pip', 'install', '-q', '--no-index', '--find-links', WHEELS,
                     '--target', DEPS, '--upgrade', 'z3-solver', 'cvc5'],
                    stdout=subprocess.DEVNULL, stderr=subprocess.DEVNULL)
                open(marker, 'w').write('ok\n')
    if DEPS not in sys.path:
        sys.path.insert(0, DEPS)


def install():
    ensure_deps()
    for p in (VERIF, REPO):
        if p not in sys.path:
            sys.path.insert(0, p)
    for name in ('filetype', 'yaml', 'appdirs'):
        if name not in sys.modules:
            sys.modules[name] = types.ModuleType(name)
    ad = sys.modules['appdirs']
    if not hasattr(ad, 'user_data_dir'):
        ad.user_data_dir = lambda *a, **k: '/nonexistent/verif'
        ad.user_config_dir = lambda *a, **k: '/nonexistent/verif'
        ad.user_download_dir = lambda *a, **k: '/nonexistent/verif'
    import logging
    logging.disable(logging.CRITICAL)


install()

try:
    import faulthandler
    import signal as _signal
    faulthandler.register(_signal.SIGUSR1, all_threads=True)
except Exception:
    pass
