"""Light hash-consed term layer with a z3-like surface; z3 objects are built lazily for queries only.
(Prototype: measured that the z3 Python wrapper otherwise dominates run time.)"""
import z3 as _z3

sat, unsat, unknown = _z3.sat, _z3.unsat, _z3.unknown

_intern = {}
DEFS = {}   # name of a defined fresh variable -> function(model) computing its value
_next_id = [0]

INT, BOOL, BV = 'Int', 'Bool', 'BV'


class Term:
    __slots__ = ('op', 'args', 'sort', 'tid', '_z', 'lo', 'hi')

    def __init__(self, op, args, sort):
        self.op = op
        self.args = args
        self.sort = sort
        self._z = None
        self.lo = None
        self.hi = None

    # identity / z3-like helpers
    def get_id(self):
        return self.tid

    def __hash__(self):
        return self.tid

    def arg(self, i):
        return self.args[i]

    def as_long(self):
        assert self.op == 'const'
        return self.args[0]

    def __repr__(self):
        if self.op in ('const', 'var'):
            return str(self.args[0])
        return f'{self.op}({", ".join(map(repr, self.args))})'

    def __bool__(self):
        raise TypeError('truth value of a symbolic term')

    # arithmetic
    def __add__(self, o):
        return add(self, _t(o))

    def __radd__(self, o):
        return add(_t(o), self)

    def __sub__(self, o):
        return add(self, neg(_t(o)))

    def __rsub__(self, o):
        return add(_t(o), neg(self))

    def __neg__(self):
        return neg(self)

    def __mul__(self, o):
        return mul(self, _t(o))

    def __rmul__(self, o):
        return mul(_t(o), self)

    def __truediv__(self, o):   # z3 Int division (floor for positive divisors)
        return div(self, _t(o))

    def __mod__(self, o):
        return mod(self, _t(o))

    def __eq__(self, o):
        return eq(self, _t(o, self.sort))

    def __ne__(self, o):
        return Not(eq(self, _t(o, self.sort)))

    def __lt__(self, o):
        return lt(self, _t(o))

    def __le__(self, o):
        return le(self, _t(o))

    def __gt__(self, o):
        return lt(_t(o), self)

    def __ge__(self, o):
        return le(_t(o), self)

    # bit-vector ops (opaque)
    def __xor__(self, o):
        return mk('bvxor', (self, o), BV)

    def __and__(self, o):
        return mk('bvand', (self, o), BV)

    def __or__(self, o):
        return mk('bvor', (self, o), BV)


def _idx(lst, x):
    for i, y in enumerate(lst):
        if y is x:
            return i
    return -1


def mk(op, args, sort):
    key = (op, args, sort)
    t = _intern.get(key)
    if t is None:
        t = Term(op, args, sort)
        t.tid = _next_id[0]
        _next_id[0] += 1
        _intern[key] = t
    return t


def _t(x, sort=None):
    if isinstance(x, Term):
        return x
    if isinstance(x, bool):
        return BoolVal(x) if sort in (None, BOOL) else IntVal(int(x))
    if isinstance(x, int):
        return IntVal(x)
    raise TypeError(f'cannot make a term of {type(x).__name__}')


def IntVal(n):
    t = mk('const', (int(n),), INT)
    t.lo = t.hi = int(n)
    return t


def BoolVal(b):
    return mk('const', (bool(b),), BOOL)


TRUE, FALSE = BoolVal(True), BoolVal(False)


def Int(name, lo=None, hi=None):
    # the declared bounds are part of the identity: names are reused across paths (per-path counters), and derived
    # terms cache interval bounds, so a variable re-declared with other bounds must be a different term
    t = mk('var', (name, lo, hi), INT)
    t.lo = lo
    t.hi = hi
    return t


def Bool(name):
    return mk('var', (name,), BOOL)


def is_expr(x):
    return isinstance(x, Term)


def is_int_value(t):
    return t.op == 'const' and t.sort == INT


def is_true(t):
    return t is TRUE


def is_false(t):
    return t is FALSE


def is_not(t):
    return t.op == 'not'


def simplify(t):
    return t


def bounds(t):
    return t.lo, t.hi


def _setb(t, lo, hi):
    if t.lo is None and t.hi is None:
        t.lo, t.hi = lo, hi
    return t


def add(a, b):
    if a.op == 'const' and b.op == 'const':
        return IntVal(a.args[0] + b.args[0])
    if a.op == 'const' and a.args[0] == 0:
        return b
    if b.op == 'const' and b.args[0] == 0:
        return a
    return _sum2((a, b))


def _sum2(xs):
    """Canonical linear combination: coefficients per base term are accumulated (x + x -> 2x, 3x - x -> 2x,
    x + (-x) -> 0), constants folded; linear in the number of summands."""
    coeff = {}          # base tid -> [base term, coefficient] (insertion ordered)
    c = 0
    for x in xs:
        for y in (x.args if x.op == 'add' else (x,)):
            op = y.op
            if op == 'const':
                c += y.args[0]
                continue
            if op == 'neg':
                base, k = y.args[0], -1
            elif op == 'mul' and y.args[0].op == 'const':
                base, k = y.args[1], y.args[0].args[0]
            else:
                base, k = y, 1
            e = coeff.get(base.tid)
            if e is None:
                coeff[base.tid] = [base, k]
            else:
                e[1] += k
    out = []
    for base, k in coeff.values():
        if k == 0:
            continue
        if k == 1:
            out.append(base)
        elif k == -1:
            out.append(_neg1(base))
        else:
            out.append(_mulc(k, base))
    if not out:
        return IntVal(c)
    if c:
        out.append(IntVal(c))
    if len(out) == 1:
        return out[0]
    t = mk('add', tuple(out), INT)
    if t.lo is None and t.hi is None:
        lo = hi = 0
        for x in out:
            if lo is not None:
                lo = None if x.lo is None else lo + x.lo
            if hi is not None:
                hi = None if x.hi is None else hi + x.hi
        t.lo, t.hi = lo, hi
    return t


def _neg1(a):
    t = mk('neg', (a,), INT)
    if t.lo is None and t.hi is None:
        t.lo = -a.hi if a.hi is not None else None
        t.hi = -a.lo if a.lo is not None else None
    return t


def _mulc(c, b):
    t = mk('mul', (IntVal(c), b), INT)
    if t.lo is None and t.hi is None and b.lo is not None and b.hi is not None:
        v = (c * b.lo, c * b.hi)
        t.lo, t.hi = min(v), max(v)
    return t


def neg(a):
    if a.op == 'const':
        return IntVal(-a.args[0])
    if a.op == 'neg':
        return a.args[0]
    if a.op == 'add':
        return _sum2([neg(x) for x in a.args])
    if a.op == 'mul' and a.args[0].op == 'const':
        return mul(IntVal(-a.args[0].args[0]), a.args[1])
    t = mk('neg', (a,), INT)
    if t.lo is None and t.hi is None:
        t.lo = -a.hi if a.hi is not None else None
        t.hi = -a.lo if a.lo is not None else None
    return t


def mul(a, b):
    if a.op == 'const' and b.op == 'const':
        return IntVal(a.args[0] * b.args[0])
    if b.op == 'const':
        a, b = b, a
    if a.op == 'const':
        c = a.args[0]
        if c == 0:
            return IntVal(0)
        if c == 1:
            return b
        if c == -1:
            return neg(b)
        if b.op == 'add':
            return _sum2([mul(a, x) for x in b.args])
        if b.op == 'neg':
            return mul(IntVal(-c), b.args[0])
        if b.op == 'mul' and b.args[0].op == 'const':
            return mul(IntVal(c * b.args[0].args[0]), b.args[1])       # nested constant factors collapse
        return _mulc(c, b)
    return mk('mul', (a, b), INT)


def div(a, b):
    if b.op != 'const' or b.args[0] <= 0:
        return mk('div', (a, b), INT)
    d = b.args[0]
    if a.op == 'const':
        return IntVal(a.args[0] // d)
    if d == 1:
        return a
    if a.lo is not None and a.hi is not None and a.lo // d == a.hi // d:
        return IntVal(a.lo // d)
    t = mk('div', (a, b), INT)
    if t.lo is None and t.hi is None:
        t.lo = a.lo // d if a.lo is not None else None
        t.hi = a.hi // d if a.hi is not None else None
    return t


def mod(a, b):
    if b.op != 'const' or b.args[0] <= 0:
        return mk('mod', (a, b), INT)
    d = b.args[0]
    if a.op == 'const':
        return IntVal(a.args[0] % d)
    if a.lo is not None and a.hi is not None and 0 <= a.lo and a.hi < d:
        return a
    t = mk('mod', (a, b), INT)
    if t.lo is None and t.hi is None:
        t.lo, t.hi = 0, d - 1
    return t


def eq(a, b):
    if a is b:
        return TRUE
    if a.op == 'const' and b.op == 'const':
        return BoolVal(a.args[0] == b.args[0])
    if a.sort == INT:
        if a.lo is not None and b.hi is not None and a.lo > b.hi:
            return FALSE
        if a.hi is not None and b.lo is not None and a.hi < b.lo:
            return FALSE
        if a.op != 'const' and b.op != 'const':
            d = add(b, neg(a))
            if d.op == 'const':
                return BoolVal(d.args[0] == 0)
            if (d.lo is not None and d.lo > 0) or (d.hi is not None and d.hi < 0):
                return FALSE
        if b.op != 'const' and a.op == 'const':
            a, b = b, a
        if b.op == 'const' and a.op == 'add' and a.args[-1].op == 'const':
            # x + c == d  ->  x == d-c
            rest = a.args[:-1]
            lhs = rest[0] if len(rest) == 1 else mk('add', rest, INT)
            return eq(lhs, IntVal(b.args[0] - a.args[-1].args[0]))
    if a.tid > b.tid:
        a, b = b, a
    return mk('eq', (a, b), BOOL)


def le(a, b):
    if a is b:
        return TRUE
    if a.hi is not None and b.lo is not None and a.hi <= b.lo:
        return TRUE
    if a.lo is not None and b.hi is not None and a.lo > b.hi:
        return FALSE
    if a.op != 'const' and b.op != 'const':
        d = add(b, neg(a))          # common symbolic parts cancel: stream offsets compare without the solver
        if d.lo is not None and d.lo >= 0:
            return TRUE
        if d.hi is not None and d.hi < 0:
            return FALSE
    if b.op == 'const' and a.op == 'add' and a.args[-1].op == 'const':
        rest = a.args[:-1]
        lhs = rest[0] if len(rest) == 1 else mk('add', rest, INT)
        return le(lhs, IntVal(b.args[0] - a.args[-1].args[0]))
    return mk('le', (a, b), BOOL)


def lt(a, b):
    return Not(le(b, a))


def Not(a):
    a = _t(a)
    if a is TRUE:
        return FALSE
    if a is FALSE:
        return TRUE
    if a.op == 'not':
        return a.args[0]
    return mk('not', (a,), BOOL)


def _flat(op, args, absorbing, neutral):
    out = []
    for x in args:
        if isinstance(x, (list, tuple)):
            sub = _flat(op, x, absorbing, neutral)
            if sub is absorbing:
                return absorbing
            out.extend(sub)
            continue
        x = _t(x)
        if x is absorbing:
            return absorbing
        if x is neutral:
            continue
        if x.op == op:
            out.extend(x.args)
        elif _idx(out, x) < 0:
            if _idx(out, Not(x)) >= 0:
                return absorbing
            out.append(x)
    return out


def And(*args):
    out = _flat('and', args, FALSE, TRUE)
    if out is FALSE:
        return FALSE
    if not out:
        return TRUE
    if len(out) == 1:
        return out[0]
    return mk('and', tuple(out), BOOL)


def Or(*args):
    out = _flat('or', args, TRUE, FALSE)
    if out is TRUE:
        return TRUE
    if not out:
        return FALSE
    if len(out) == 1:
        return out[0]
    return mk('or', tuple(out), BOOL)


def If(c, a, b):
    c = _t(c)
    if c is TRUE:
        return _t(a)
    if c is FALSE:
        return _t(b)
    a, b = _t(a), _t(b)
    if a is b:
        return a
    t = mk('ite', (c, a, b), a.sort)
    if a.sort == INT and t.lo is None and t.hi is None:
        t.lo = min(a.lo, b.lo) if a.lo is not None and b.lo is not None else None
        t.hi = max(a.hi, b.hi) if a.hi is not None and b.hi is not None else None
    return t


def HexDigit(b, hi):
    """ASCII code of the high / low lowercase hex digit of byte term b (an Int term in 0..255)."""
    if b.op == 'const':
        return IntVal(ord(('%02x' % b.args[0])[0 if hi else 1]))
    if b.op == 'bvconst':
        return BitVecVal(ord(('%02x' % b.args[0])[0 if hi else 1]), 8)
    t = mk('hexhi' if hi else 'hexlo', (b,), b.sort)
    if b.sort == INT:
        t.lo, t.hi = 48, 102
    return t


def NibChar(n):
    """ASCII code of the lowercase hex digit of the nibble term n (0..15)."""
    if n.op == 'const':
        return IntVal(ord('%x' % n.args[0]))
    t = mk('nibchr', (n,), INT)
    t.lo, t.hi = 48, 102
    return t


def Select(idx, values):
    """values[idx] for a constant table of ints and an Int term idx known to be in range: an ite chain (a value, not
    a fork)."""
    if idx.op == 'const':
        return IntVal(values[idx.args[0]])
    t = mk('select', (idx, tuple(values)), INT)
    t.lo, t.hi = min(values), max(values)
    return t


def BitChar(v, sh, top=False):
    """ASCII '0'/'1' of bit `sh` of the non-negative Int term v (lazy: no bit variable, no defining equation)."""
    t = mk('bitchr', (v, sh), INT)
    t.lo, t.hi = (49 if top else 48), 49
    return t


def Sum(xs):
    return _sum2([_t(x) for x in xs])


def BitVec(name, w):
    return mk('bvvar', (name, w), BV)


def BitVecVal(v, w):
    return mk('bvconst', (v & ((1 << w) - 1), w), BV)


def width(t):
    op = t.op
    if op in ('bvvar', 'bvconst'):
        return t.args[1]
    if op in ('hexhi', 'hexlo'):
        return 8
    if op == 'int2bv':
        return t.args[1]
    if op == 'concat':
        return sum(width(x) for x in t.args)
    if op in ('bvxor', 'bvand', 'bvor'):
        return width(t.args[0])
    if op == 'zext':
        return t.args[1] + width(t.args[0])
    raise NotImplementedError('width ' + op)


def ZeroExt(n, a):
    return a if n == 0 else mk('zext', (a, n), BV)


def ULE(a, b):
    if a is b:
        return TRUE
    if a.op == 'bvconst' and b.op == 'bvconst':
        return BoolVal(a.args[0] <= b.args[0])
    return mk('ule', (a, b), BOOL)


def ULT(a, b):
    return Not(ULE(b, a))


def bveq(a, b):
    if a is b:
        return TRUE
    if a.op == 'bvconst' and b.op == 'bvconst':
        return BoolVal(a.args[0] == b.args[0])
    if a.tid > b.tid:
        a, b = b, a
    return mk('eq', (a, b), BOOL)


def Int2BV(a, w):
    return mk('int2bv', (_t(a), w), BV)


def BV2Int(a, signed=False):
    if a.op == 'bvconst':
        return IntVal(a.args[0])
    t = mk('bv2int', (a,), INT)
    if t.lo is None:
        t.lo, t.hi = 0, (1 << width(a)) - 1
    return t


def Concat(xs):
    return mk('concat', tuple(xs), BV)


# ---------------------------------------------------------------------------- z3 conversion
def to_z3(t):
    z = t._z
    if z is not None:
        return z
    op, a = t.op, t.args
    if op == 'const':
        z = _z3.IntVal(a[0]) if t.sort == INT else _z3.BoolVal(a[0])
    elif op == 'var':
        z = _z3.Int(a[0]) if t.sort == INT else _z3.Bool(a[0])
    elif op == 'add':
        z = _z3.Sum([to_z3(x) for x in a])
    elif op == 'neg':
        z = -to_z3(a[0])
    elif op == 'mul':
        z = to_z3(a[0]) * to_z3(a[1])
    elif op == 'div':
        z = to_z3(a[0]) / to_z3(a[1])
    elif op == 'mod':
        z = to_z3(a[0]) % to_z3(a[1])
    elif op == 'eq':
        z = to_z3(a[0]) == to_z3(a[1])
    elif op == 'le':
        z = to_z3(a[0]) <= to_z3(a[1])
    elif op == 'not':
        z = _z3.Not(to_z3(a[0]))
    elif op == 'and':
        z = _z3.And([to_z3(x) for x in a])
    elif op == 'or':
        z = _z3.Or([to_z3(x) for x in a])
    elif op == 'ite':
        z = _z3.If(to_z3(a[0]), to_z3(a[1]), to_z3(a[2]))
    elif op == 'bitchr':
        z = 48 + (to_z3(a[0]) / (2 ** a[1])) % 2
    elif op == 'nibchr':
        n = to_z3(a[0])
        z = _z3.If(n < 10, 48 + n, 87 + n)
    elif op == 'select':
        i = to_z3(a[0])
        vals = a[1]
        z = _z3.IntVal(vals[-1])
        for k in range(len(vals) - 2, -1, -1):
            z = _z3.If(i == k, _z3.IntVal(vals[k]), z)
    elif op in ('hexhi', 'hexlo'):
        b = to_z3(a[0])
        if t.sort == BV:
            n = _z3.ZeroExt(4, _z3.Extract(7, 4, b) if op == 'hexhi' else _z3.Extract(3, 0, b))
            z = _z3.If(_z3.ULT(n, 10), n + 48, n + 87)
        else:
            n = b / 16 if op == 'hexhi' else b % 16
            z = _z3.If(n < 10, 48 + n, 87 + n)
    elif op == 'bvvar':
        z = _z3.BitVec(a[0], a[1])
    elif op == 'bvconst':
        z = _z3.BitVecVal(a[0], a[1])
    elif op == 'zext':
        z = _z3.ZeroExt(a[1], to_z3(a[0]))
    elif op == 'ule':
        z = _z3.ULE(to_z3(a[0]), to_z3(a[1]))
    elif op == 'int2bv':
        z = _z3.Int2BV(to_z3(a[0]), a[1])
    elif op == 'bv2int':
        z = _z3.BV2Int(to_z3(a[0]), False)
    elif op == 'concat':
        z = _z3.Concat([to_z3(x) for x in a])
    elif op == 'bvxor':
        z = to_z3(a[0]) ^ to_z3(a[1])
    elif op == 'bvand':
        z = to_z3(a[0]) & to_z3(a[1])
    elif op == 'bvor':
        z = to_z3(a[0]) | to_z3(a[1])
    else:
        raise NotImplementedError(op)
    t._z = z
    return z


def var_bounds_constraints(t, seen, out):
    """Collect declared bounds of variables occurring in t."""
    if t.tid in seen:
        return
    seen.add(t.tid)
    if t.op == 'var' and t.sort == INT:
        if t.lo is not None:
            out.append(to_z3(t) >= t.lo)
        if t.hi is not None:
            out.append(to_z3(t) <= t.hi)
    for x in t.args:
        if isinstance(x, Term):
            var_bounds_constraints(x, seen, out)


class Solver:
    def __init__(self):
        self.s = _z3.Solver()
        self.s.set('timeout', 10000)
        self.seen = set()

    def reset(self):
        self.s.reset()
        self.seen = set()

    def add(self, *ts):
        for t in ts:
            if isinstance(t, (list, tuple)):
                self.add(*t)
                continue
            extra = []
            var_bounds_constraints(t, self.seen, extra)
            if extra:
                self.s.add(extra)
            self.s.add(to_z3(t))

    def push(self):
        self.s.push()
        self._saved = set(self.seen)

    def pop(self):
        self.s.pop()
        self.seen = self._saved

    def check(self):
        return self.s.check()

    def model(self):
        return self.s.model()


def check_fresh(terms, timeout_ms, want_model=False):
    """One-shot check with a fresh, non-incremental solver (z3's tactic pipeline with preprocessing decides arithmetic
    queries that its incremental core - used after push() - gives up on)."""
    s = _z3.Solver()
    s.set('timeout', int(timeout_ms))
    seen, extra = set(), []
    for t in terms:
        var_bounds_constraints(t, seen, extra)
    s.add(extra)
    s.add([to_z3(t) for t in terms])
    r = s.check()
    m = model_dict(s.model()) if (r == sat and want_model) else None
    return r, m


N_CVC5 = {'asked': 0, 'decided': 0}


def check_cvc5(terms, timeout_ms, want_model=False):
    """Third opinion for a query that both z3 strategies answered `unknown`: the same assertions (SMT-LIB2 text printed by z3,
    so it is the identical encoding) are handed to cvc5 (python wheel installed by `vcheck setup`).  Returns (sat|unsat|unknown,
    model dict or None).  Any cvc5 error, a missing module or an unparsable construct counts as `unknown`, never as a verdict."""
    N_CVC5['asked'] += 1
    try:
        import cvc5
    except Exception:
        return unknown, None
    s = _z3.Solver()
    seen, extra = set(), []
    for t in terms:
        var_bounds_constraints(t, seen, extra)
    s.add(extra)
    s.add([to_z3(t) for t in terms])
    text = s.to_smt2()
    try:
        slv = cvc5.Solver()
        slv.setOption('tlimit-per', str(int(timeout_ms)))
        slv.setOption('produce-models', 'true')
        slv.setLogic('ALL')
        parser = cvc5.InputParser(slv)
        parser.setStringInput(cvc5.InputLanguage.SMT_LIB_2_6, text.replace('(check-sat)', ''), 'q')
        sm = parser.getSymbolManager()
        while True:
            cmd = parser.nextCommand()
            if cmd.isNull():
                break
            out = cmd.invoke(slv, sm)
            if '(error' in str(out):
                return unknown, None
        r = slv.checkSat()
        if r.isUnsat():
            N_CVC5['decided'] += 1
            return unsat, None
        if not r.isSat():
            return unknown, None
        N_CVC5['decided'] += 1
        m = None
        if want_model:
            m = {}
            for t in sm.getDeclaredTerms():
                v = slv.getValue(t)
                name = str(t)
                if name.startswith('|') and name.endswith('|'):
                    name = name[1:-1]
                if v.isIntegerValue():
                    m[name] = int(v.getIntegerValue())
                elif v.isBooleanValue():
                    m[name] = bool(v.getBooleanValue())
                elif v.isBitVectorValue():
                    m[name] = int(v.getBitVectorValue(10))
        return sat, m
    except Exception:
        return unknown, None


def evaluate(t, model):
    """Evaluate a term under a (partial) model: dict var-name -> python value; missing vars get an in-bounds default."""
    op, a = t.op, t.args
    if op == 'const':
        return a[0]
    if op == 'var':
        v = model.get(a[0])
        if v is None and a[0] in DEFS:
            v = model[a[0]] = DEFS[a[0]](model)
        if v is None:
            if t.sort == BOOL:
                v = False
            else:
                v = 0
                if t.lo is not None and v < t.lo:
                    v = t.lo
                if t.hi is not None and v > t.hi:
                    v = t.hi
            model[a[0]] = v
        return v
    if op == 'bvvar':
        v = model.get(a[0])
        if v is None:
            v = model[a[0]] = 0
        return v
    if op == 'bvconst':
        return a[0]
    if op == 'zext':
        return evaluate(a[0], model)
    if op == 'ule':
        return evaluate(a[0], model) <= evaluate(a[1], model)
    if op == 'bv2int':
        return evaluate(a[0], model)
    if op == 'int2bv':
        return evaluate(a[0], model) & ((1 << a[1]) - 1)
    if op == 'concat':
        r = 0
        for x in a:
            r = (r << width(x)) | evaluate(x, model)
        return r
    if op == 'bvxor':
        return evaluate(a[0], model) ^ evaluate(a[1], model)
    if op == 'bvand':
        return evaluate(a[0], model) & evaluate(a[1], model)
    if op == 'bvor':
        return evaluate(a[0], model) | evaluate(a[1], model)
    if op == 'add':
        return sum(evaluate(x, model) for x in a)
    if op == 'neg':
        return -evaluate(a[0], model)
    if op == 'mul':
        return evaluate(a[0], model) * evaluate(a[1], model)
    if op == 'div':
        return evaluate(a[0], model) // evaluate(a[1], model)
    if op == 'mod':
        return evaluate(a[0], model) % evaluate(a[1], model)
    if op == 'eq':
        return evaluate(a[0], model) == evaluate(a[1], model)
    if op == 'le':
        return evaluate(a[0], model) <= evaluate(a[1], model)
    if op == 'not':
        return not evaluate(a[0], model)
    if op == 'and':
        return all(evaluate(x, model) for x in a)
    if op == 'or':
        return any(evaluate(x, model) for x in a)
    if op == 'ite':
        return evaluate(a[1], model) if evaluate(a[0], model) else evaluate(a[2], model)
    if op in ('hexhi', 'hexlo'):
        return ord(('%02x' % evaluate(a[0], model))[0 if op == 'hexhi' else 1])
    if op == 'bitchr':
        return 48 + ((evaluate(a[0], model) >> a[1]) & 1)
    if op == 'nibchr':
        return ord('%x' % evaluate(a[0], model))
    if op == 'select':
        return a[1][evaluate(a[0], model)]
    raise NotImplementedError('evaluate ' + op)


def model_dict(zmodel):
    out = {}
    for d in zmodel.decls():
        v = zmodel[d]
        if _z3.is_int_value(v) or _z3.is_bv_value(v):
            out[d.name()] = v.as_long()
        elif _z3.is_true(v):
            out[d.name()] = True
        elif _z3.is_false(v):
            out[d.name()] = False
    return out
