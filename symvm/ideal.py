"""Ideal (uninterpreted, optionally injective) functions over byte strings, for hashes / MACs / ciphers.

Symbolically a call returns fresh symbolic output bytes.  Functional consistency is enforced by comparing the new
argument with every earlier argument of the same function on the current path (the comparison forks only when the
solver cannot already decide it); with `injective=True` distinct arguments additionally get distinct outputs, which
is the collision-resistance assumption stated in the evidence.  Natively the *real* function runs (a real hash is
injective on everything a replay can produce), so no patching is needed for replays."""
from . import tz as z3
from .sv import SBytes, SInt, mk_bool, mk_bytes, atoms_of, Unsupported


def neq8(x, y):
    if isinstance(x, int) and isinstance(y, int):
        return z3.BoolVal(x != y)
    bx = x if z3.is_expr(x) and x.sort == z3.BV else None
    by = y if z3.is_expr(y) and y.sort == z3.BV else None
    if bx is not None or by is not None:
        bx = bx if bx is not None else (z3.BitVecVal(x, 8) if isinstance(x, int) else z3.Int2BV(x, 8))
        by = by if by is not None else (z3.BitVecVal(y, 8) if isinstance(y, int) else z3.Int2BV(y, 8))
        return z3.Not(z3.bveq(bx, by))
    return z3._t(x) != z3._t(y)


def same_repr(a, b):
    def is_bv(x):
        return z3.is_expr(x) and x.sort == z3.BV
    ka = {is_bv(x) for x in a if not isinstance(x, int)}
    kb = {is_bv(x) for x in b if not isinstance(x, int)}
    return len(ka | kb) <= 1


class IdealFn:
    def __init__(self, vm, name, out_len, injective=True, arity=1, bv=True):
        self.vm, self.name, self.out_len, self.injective, self.arity = vm, name, out_len, injective, arity
        self.bv = bv        # output bytes as 8-bit bit-vector variables (equalities stay in the SAT core)
        self.calls = 0

    def table(self):
        return self.vm.path_cache.setdefault(('ideal', self.name), [])

    def __call__(self, *args):
        vm = self.vm
        tab = self.table()
        for prev_args, out in tab:
            same = True
            for a, b in zip(prev_args, args):
                if not vm.truth(vm.eq(a, b)):
                    same = False
                    break
            if same:
                return out
        n = len(tab)
        if self.bv:
            out = SBytes([vm._fresh_bv8(f'{self.name}#{n}[{i}]') for i in range(self.out_len)])
        else:
            out = SBytes([vm._fresh_int(f'{self.name}#{n}[{i}]', 0, 255).e for i in range(self.out_len)])
        if self.injective:
            # random-oracle freshness: the output for a new argument differs from every value of its length that
            # exists at this point of the path (harness-created byte strings and earlier outputs of any ideal function)
            for other in vm.universe:
                if len(other.a) == self.out_len and same_repr(other.a, out.a):
                    # (values in the other representation - Int bytes vs bit-vector bytes - are left unconstrained:
                    # mixing the two theories stalls the solver; a weaker assumption is still sound)
                    vm.add_pc(z3.Or([neq8(x, y) for x, y in zip(other.a, out.a)]))
            vm.universe.append(out)
        tab.append((args, out))
        vm.ideal_log.append((self.name, out))
        return out

    def model(self):
        """(vm, args, kwargs) adapter for VM.models."""
        return lambda vm, a, k: self(*a)


class NativeIdeal:
    """Native twin of an IdealFn for replays whose path *depends on hash values* (a checksum that matches, a proof of
    work below its target): the k-th new argument gets the output bytes the solver's model chose for the k-th ideal
    call; arguments beyond the recorded ones (or when nothing was recorded) go to the real function."""

    def __init__(self, nvm, name, real):
        self.nvm, self.name, self.real = nvm, name, real
        self.seen = {}
        self.k = 0

    def __call__(self, *args):
        key = tuple(bytes(a) if isinstance(a, (bytes, bytearray, memoryview)) else a for a in args)
        if key in self.seen:
            return self.seen[key]
        rec = self.nvm.named.get(f'ideal|{self.name}|{self.k}')
        self.k += 1
        out = bytes.fromhex(rec) if rec is not None else self.real(*args)
        self.seen[key] = out
        return out
