"""Ideal (uninterpreted, optionally injective) functions over byte strings, for hashes / MACs / ciphers.

Symbolically a call returns fresh symbolic output bytes.  Functional consistency is enforced by comparing the new
argument with every earlier argument of the same function on the current path (the comparison forks only when the
solver cannot already decide it); with `injective=True` distinct arguments additionally get distinct outputs, which
is the collision-resistance assumption stated in the evidence.  Natively the *real* function runs (a real hash is
injective on everything a replay can produce), so no patching is needed for replays."""
from . import tz as z3
from .sv import SBytes, SInt, mk_bool, mk_bytes, atoms_of, Unsupported


class IdealFn:
    def __init__(self, vm, name, out_len, injective=True, arity=1):
        self.vm, self.name, self.out_len, self.injective, self.arity = vm, name, out_len, injective, arity
        self.calls = 0

    def table(self):
        return self.vm.path_cache.setdefault(('ideal', self.name), [])

    def __call__(self, *args):
        vm = self.vm
        tab = self.table()
        for prev_args, out in tab:
            same = True
            for a, b in zip(prev_args, args):
                if not vm.truth(vm.eq(a, b)):
                    same = False
                    break
            if same:
                return out
        n = len(tab)
        out = SBytes([vm._fresh_int(f'{self.name}#{n}[{i}]', 0, 255).e for i in range(self.out_len)])
        if self.injective:
            for prev_args, prev in tab:
                vm.add_pc(z3.Or([x != y for x, y in zip(prev.a, out.a)]))
        tab.append((args, out))
        return out

    def model(self):
        """(vm, args, kwargs) adapter for VM.models."""
        return lambda vm, a, k: self(*a)
