"""Job runner: explores every job of a property's harness with symvm, replays natively, writes evidence.

Exit codes: 0 held on everything explored (exhaustively within the bounds); 1 VIOLATION (replayed, not listed as a
known finding); 2 inconclusive (bound exceeded, unsupported construct, solver unknown, runaway guard);
3 harness error (a solver counterexample or a path witness did not reproduce natively)."""
import ast
import contextlib
import hashlib
import importlib
import json
import multiprocessing
import os
import random
import sys
import time
import traceback

from . import boot
from . import tz
from .native import NativeVM, ReplayDiverged, AssumeFailed, WatchdogTimeout, with_watchdog

VERIF = boot.VERIF
MAX_REPLAY_RUN = 1 << 22      # opaque runs longer than this are shrunk (or the witness replay is skipped)
TRACE = bool(os.environ.get('VERIF_TRACE'))
WITNESS_CAP = 2000                # witness replays per job (all paths if fewer)


GAP_MARK = 'StandInGap'


def load_harness(pid):
    mod = importlib.import_module('harness.' + pid)
    from . import standin
    standin.guard_harness_classes()
    return mod


def short(v, n=120):
    s = repr(v)
    return s if len(s) <= n else s[:n] + '...'


def show_inputs(inputs, named):
    out = []
    for kind, name, v in inputs:
        if kind == 'run':
            out.append(f'{name}=<run of {v[1]} bytes>')
        elif kind == 'bytes':
            b = bytes(v)
            out.append(f'{name}={b!r}' if len(b) <= 12 else f'{name}=hex:{b.hex()}')
        elif kind == 'str':
            out.append(f'{name}={"".join(map(chr, v))!r}')
        else:
            out.append(f'{name}={v}')
    for k, v in sorted(named.items()):
        out.append(f'${k}={v}')
    s = ', '.join(out)
    return s if len(s) < 600 else s[:600] + '...'


# --------------------------------------------------------------------------------------------- native side
def native_run(mod, job, inputs, named, watchdog=10.0):
    """Run the job's harness function natively on concrete inputs.  Returns an outcome tuple like the VM's."""
    nvm = NativeVM(inputs, named)
    fn = getattr(mod, job['fn'])
    setup = getattr(mod, 'native_setup', None)
    cm = setup(nvm, job) if setup else None
    if cm is None:
        cm = contextlib.nullcontext()
    from . import standin
    standin.guard_harness_classes()

    def go():
        with cm:
            return fn(nvm, *job.get('args', ()))
    try:
        r = with_watchdog(go, watchdog, job.get('native_recursion_limit'))
        out = ('ret', r)
    except WatchdogTimeout:
        out = ('timeout', 'no return within %.0f s' % watchdog)
    except AssumeFailed:
        out = ('assume-failed', '')
    except ReplayDiverged as e:
        out = ('diverged', str(e))
    except RecursionError as e:
        out = ('exc', 'RecursionError:' + str(e)[:80])
    except MemoryError:
        out = ('exc', 'MemoryError:')
    except BaseException as e:
        if isinstance(e, (KeyboardInterrupt, SystemExit)):
            raise
        out = ('exc', type(e).__name__ + ':' + str(e)[:80])
    return out, nvm


def default_on_bound(job, nat):
    """The interpreter hit a loop/recursion bound: the native run of the real code on the same inputs decides."""
    if nat is not None and nat[0] == 'ret' and isinstance(nat[1], str) and nat[1].startswith('VIOLATION') and GAP_MARK not in nat[1]:
        return nat[1]
    return None


def outcomes_agree(sym, nat):
    if sym[0] != nat[0]:
        return False
    if sym[0] == 'ret':
        return sym[1] == nat[1]
    if sym[0] == 'exc':
        return sym[1].split(':')[0] == nat[1].split(':')[0]
    return True


def jsonable_inputs(inputs):
    out = []
    for kind, name, v in inputs:
        if kind == 'bytes':
            v = bytes(v).hex()
        elif kind == 'run':
            rid, n, fill = v
            v = [rid, n, fill.hex() if isinstance(fill, (bytes, bytearray)) else fill, isinstance(fill, (bytes, bytearray))]
        out.append([kind, name, v])
    return out


def inputs_from_json(lst):
    out = []
    for kind, name, v in lst:
        if kind == 'bytes':
            v = bytes.fromhex(v)
        elif kind == 'run':
            rid, n, fill, is_b = v
            v = (rid, n, bytes.fromhex(fill) if is_b else fill)
        out.append((kind, name, v))
    return out


# --------------------------------------------------------------------------------------------- canaries
def apply_mutation(vm, mutation):
    """In-memory mutant of the real AST (the VM interprets it) and of the real function's code (native replay)."""
    target, mutate = mutation['target'], mutation['mutate']
    modname, qual = target.split(':')
    obj = importlib.import_module(modname)
    for part in qual.split('.'):
        obj = getattr(obj, part)
    fn = obj
    while hasattr(fn, '__wrapped__'):
        fn = fn.__wrapped__
    if isinstance(fn, (staticmethod, classmethod)):
        fn = fn.__func__
    if isinstance(fn, property):
        fn = fn.fget
    fn = getattr(fn, '__func__', fn)
    node = vm.get_ast(fn)
    if not mutate(node):
        raise RuntimeError('canary %s: mutation site not found in %s' % (mutation.get('name'), target))
    ast.fix_missing_locations(node)
    # native twin: compile the mutated def in the function's globals and swap the code object
    saved_decorators = node.decorator_list
    node.decorator_list = []
    try:
        modast = ast.Module(body=[node], type_ignores=[])
        code = compile(modast, fn.__code__.co_filename, 'exec')
        if fn.__closure__:
            raise RuntimeError('canary target with closure not supported')
        ns = {}
        exec(code, fn.__globals__, ns)
        fn.__code__ = ns[node.name].__code__
        vm.fcache[fn.__code__] = node      # the interpreter keeps using the mutated AST for the swapped code object
    finally:
        node.decorator_list = saved_decorators


# --------------------------------------------------------------------------------------------- one job
def run_job(task):
    pid, job, opts = task
    t0 = time.time()
    res = dict(job=job['name'], paths=0, decisions=0, queries=0, solver_s=0.0, validated=0, replay_skipped=0,
               unproven=0, violations=[], inconclusive=[], harness_errors=[], samples=[], outcomes={},
               exhausted=False, functions={}, wall=0.0, bounds=job.get('bounds', {}))
    ctl = make_forkctl(job, opts)
    try:
        _run_job(pid, job, opts, res, ctl)
    except BaseException as e:
        if isinstance(e, KeyboardInterrupt):
            raise
        res['harness_errors'].append('job crashed: %s: %s\n%s' % (type(e).__name__, e, traceback.format_exc()[-1500:]))
        if ctl is not None and ctl.is_child:
            ctl.child_exit(dict(res=res, summary=None))
    if ctl is not None:
        parts = ctl.wait_all(opts.get('deadline'))
        if parts is None:
            res['inconclusive'].append('forked explorers did not finish before the deadline')
        else:
            merge_parts(res, parts)
        if getattr(ctl, 'crashed', 0):
            res['harness_errors'].append(f'{ctl.crashed} forked explorer(s) died without reporting (their subtrees are unexplored)')
            res['exhausted'] = False
        import shutil
        shutil.rmtree(ctl.scratch, ignore_errors=True)
    gap_only = bool(res['outcomes']) and all(GAP_MARK in k for k in res['outcomes'])     # every path ended at a stand-in gap: inconclusive, not vacuous
    for label in job.get('must_reach', ()):
        if not gap_only and not any(k.startswith('ret:' + label) for k in res['outcomes']):
            res['harness_errors'].append(f'vacuity: no path reached outcome "{label}" (outcomes: {list(res["outcomes"])[:8]})')
    res['wall'] = time.time() - t0
    return res


FORK_ENV = {}


def make_forkctl(job, opts):
    if not job.get('fork', True) or os.environ.get('VERIF_NOFORK') or 'tokens' not in FORK_ENV:
        return None
    import tempfile
    from .forkctl import ForkCtl
    return ForkCtl(FORK_ENV['ctx'], tempfile.mkdtemp(prefix='vfork-', dir=FORK_ENV['scratch']), FORK_ENV['tokens'])


def merge_parts(res, parts):
    for part in parts:
        r, summ = part.get('res'), part.get('summary')
        if r is None:
            continue
        for k in ('paths', 'validated', 'replay_skipped', 'unproven'):
            res[k] += r[k]
        res['violations'].extend(r['violations'])
        res['inconclusive'].extend(r['inconclusive'])
        res['harness_errors'].extend(r['harness_errors'])
        if len(res['samples']) < 8:
            res['samples'].extend(r['samples'][:2])
        if summ is None:
            res['exhausted'] = False
            continue
        res['decisions'] += summ['decisions']
        res['queries'] += summ['queries']
        res['solver_s'] = round(res['solver_s'] + summ['solver_s'], 3)
        res['unknown_queries'] = res.get('unknown_queries', 0) + summ['unknown_queries']
        res['cvc5_queries'] = res.get('cvc5_queries', 0) + summ.get('cvc5_queries', 0)
        for k, v in summ['outcomes'].items():
            res['outcomes'][k] = res['outcomes'].get(k, 0) + v
        if not summ['exhausted']:
            res['exhausted'] = False
        if summ['stop']:
            res['inconclusive'].append('a forked explorer stopped early: ' + summ['stop'])
        res['functions'].update(part.get('functions', {}))


def shrink_model(vm, model, cap):
    """If the model makes an opaque run longer than `cap`, look for another model of the same path with short runs."""
    big = [p for kind, _, p in vm.inputs if kind == 'run' and tz.is_expr(p[1]) and tz.evaluate(p[1], model) > cap]
    if not big:
        return model
    for lim in (300, 70000, cap):
        st, m = vm.query(tz.And([p[1] <= lim for p in big]), want_model=True)
        if st == 'sat':
            return m
    return None


def _run_job(pid, job, opts, res, ctl=None):
    from .vm import VM, UNKNOWN
    mod = load_harness(pid)
    vm = VM(interp_prefixes=('lbry', 'harness'))
    vm.loop_bound = job.get('loop_bound', 400)
    vm.max_depth = job.get('max_depth', 60)
    vm.query_timeout_ms = job.get('query_timeout_ms', 10000)
    vm.incremental_timeout_ms = job.get('incremental_timeout_ms', 1500)
    vm.cvc5_fallback = bool(job.get('cvc5_fallback', False))
    vm.solver.s.set('timeout', vm.query_timeout_ms)
    if 'bv_width' in job:
        vm.bv_width = job['bv_width']
    if hasattr(mod, 'sym_setup'):
        mod.sym_setup(vm, job)
    from . import standin
    standin.guard_harness_classes()                # harness modules imported lazily by the set-up are guarded as well
    if job.get('mutation'):
        apply_mutation(vm, job['mutation'])
    fn = getattr(mod, job['fn'])
    args = list(job.get('args', ()))
    rng = random.Random(opts['seed'] * 1000003 + hash(job['name']) % 1000003)
    replay = job.get('replay', True)
    finding_key = getattr(mod, 'finding_key', None)
    is_violation = getattr(mod, 'is_violation', lambda verdict: isinstance(verdict, str) and verdict.startswith('VIOLATION')
                           and GAP_MARK not in verdict)
    is_ok = getattr(mod, 'is_ok', lambda verdict: isinstance(verdict, str) and verdict.startswith('ok'))
    seen_viol = {}
    path_no = [0]
    job_pub = {k: v for k, v in job.items() if k != 'mutation'}

    halt_after = job.get('halt_after_violations')       # canaries: the first reproduced violations settle the question

    def maybe_halt():
        if halt_after and len(res['violations']) >= halt_after:
            vm.halt_requested = True
            if ctl is not None:
                ctl.halt.value = 1

    def on_path(vm_, rec):
        try:
            _on_path(vm_, rec)
        finally:
            maybe_halt()

    def _on_path(vm_, rec):
        path_no[0] += 1
        kind, val = rec.outcome
        res['paths'] += 1
        bad = not (kind == 'ret' and is_ok(val))
        want_replay = replay and (bad or res['paths'] <= WITNESS_CAP or rng.random() < 0.05)
        if not bad and not want_replay and len(res['samples']) >= 3:
            if rec.unproven:
                res['unproven'] += 1
            return
        # dedupe violation paths with the same verdict: replay only the first few
        vkey = (kind, val if kind == 'ret' else val.split(':')[0])
        if bad and seen_viol.get(vkey, 0) >= 3:
            seen_viol[vkey] += 1
            return
        model = vm_.path_model()
        if model is UNKNOWN and bad:
            model = vm_.path_model(timeout_ms=job.get('long_timeout_ms', 120000))
        if model is None:
            # path refuted after all (only possible below an unproven side)
            res['paths'] -= 1
            return
        if model is UNKNOWN:
            res['unproven'] += 1
            if bad:
                res['inconclusive'].append(f'{kind}:{short(val)} on a path whose feasibility z3 could not decide')
            return
        model = shrink_model(vm_, model, MAX_REPLAY_RUN)
        if model is None:
            res['replay_skipped'] += 1
            if bad:
                res['inconclusive'].append(f'{kind}:{short(val)} only with runs longer than the replay cap')
            return
        inputs, named = vm_.concretise_inputs(model)
        nat, nvm = (None, None)
        if replay or bad:
            nat, nvm = native_run(mod, job, inputs, named, job.get('watchdog', 10.0))
        sample = dict(job=job['name'], inputs=show_inputs(inputs, named), symbolic=f'{kind}:{short(val, 200)}')
        if nat is not None:
            sample['native'] = f'{nat[0]}:{short(nat[1], 200)}'
        if len(res['samples']) < 3 or (bad and len(res['samples']) < 8):
            res['samples'].append(sample)
        if kind == 'ret':
            if nat is not None and not outcomes_agree(rec.outcome, nat):
                if is_violation(val):
                    res['harness_errors'].append('counterexample does not replay: ' + json.dumps(sample))
                else:
                    res['harness_errors'].append('witness replay disagrees: ' + json.dumps(sample))
                return
            if nat is not None:
                res['validated'] += 1
            if is_ok(val):
                return
            if is_violation(val):
                seen_viol[vkey] = seen_viol.get(vkey, 0) + 1
                key = finding_key(job, val, inputs, named) if finding_key else f'{job.get("family", job["name"])}|{val}'
                res['violations'].append(dict(key=key, verdict=val, job=job_pub, inputs=jsonable_inputs(inputs), named=named,
                                              shown=sample['inputs']))
                return
            if isinstance(val, str) and GAP_MARK in val:
                res['inconclusive'].append('the analysed code uses an attribute that a harness stand-in does not provide - a gap of the '
                                           'harness, not a verdict about the property: ' + short(val, 200))
                return
            res['inconclusive'].append('harness returned neither ok nor VIOLATION: ' + short(val))
            return
        if kind == 'bound':
            # decide natively between "does not terminate / recursion error", and "bound too small"
            seen_viol[vkey] = seen_viol.get(vkey, 0) + 1
            on_bound = getattr(mod, 'on_bound', default_on_bound)
            verdict = on_bound(job, nat)
            if verdict is not None and is_violation(verdict):
                key = finding_key(job, verdict, inputs, named) if finding_key else f'{job.get("family", job["name"])}|{verdict}'
                res['violations'].append(dict(key=key, verdict=verdict, job=job_pub, inputs=jsonable_inputs(inputs), named=named,
                                              shown=sample['inputs']))
            else:
                res['inconclusive'].append(f'bound exceeded ({val}); native: {nat}; inputs: {sample["inputs"]}')
            return
        seen_viol[vkey] = seen_viol.get(vkey, 0) + 1
        if nat is not None and nat[0] == 'ret' and is_violation(nat[1]):
            # the symbolic run of this path ended inconclusive (unmodelled construct / escaped exception), but the real code run
            # on the path's witness violates the property: a concrete, reproduced failure is reported as such
            key = finding_key(job, nat[1], inputs, named) if finding_key else f'{job.get("family", job["name"])}|{nat[1]}'
            res['violations'].append(dict(key=key, verdict=nat[1], job=job_pub, inputs=jsonable_inputs(inputs), named=named,
                                          shown=sample['inputs'] + f' (native run of the witness of a path the encoding could not '
                                                                   f'finish: {kind}: {short(val, 80)})'))
        if kind == 'exc':
            res['inconclusive'].append(f'exception escaped the harness: {val}; native: {nat}; inputs: {sample["inputs"]}')
            return
        res['inconclusive'].append(f'{kind}: {val}; inputs: {sample["inputs"]}')

    if ctl is not None:
        import signal
        signal.signal(signal.SIGCHLD, signal.SIG_IGN)        # forked explorers are reaped automatically
        vm.fork_ctl = ctl

        def on_fork_child():
            for k in ('paths', 'validated', 'replay_skipped', 'unproven'):
                res[k] = 0
            for k in ('violations', 'inconclusive', 'harness_errors', 'samples'):
                res[k] = []
            seen_viol.clear()
        vm.on_fork_child = on_fork_child
        vm.fork_collect = lambda summ: dict(res=res, summary=summ, functions=dict(vm.funcs_seen))
    summary = vm.explore(lambda v: v.call(fn, [v] + args, dict(job.get('kwargs', {}))),
                         max_paths=job.get('max_paths', 400000), on_path=on_path,
                         deadline=opts.get('deadline'))
    res['exhausted'] = summary['exhausted']
    res['decisions'] = summary['decisions']
    res['queries'] = summary['queries']
    res['solver_s'] = round(summary['solver_s'], 3)
    res['outcomes'] = summary['outcomes']
    res['unknown_queries'] = summary['unknown_queries']
    res['cvc5_queries'] = summary.get('cvc5_queries', 0)
    if summary['stop']:
        res['inconclusive'].append('exploration stopped early: ' + summary['stop'])
    res['functions'] = dict(vm.funcs_seen)


# --------------------------------------------------------------------------------------------- property level
def load_known():
    p = os.path.join(VERIF, 'known_findings.json')
    if not os.path.exists(p):
        return []
    return json.load(open(p)).get('findings', [])


def run_property(pid, tier, seed, only=None, canaries=None, write_evidence=True, verbose=False):
    t0 = time.time()
    mod = load_harness(pid)
    jobs = list(mod.jobs(tier))
    if only:
        jobs = [j for j in jobs if any(o in j['name'] for o in only)]
    budget = getattr(mod, 'BUDGET_S', {}).get(tier, 1500 if tier == 'quick' else 2400)
    opts = dict(seed=seed, deadline=t0 + budget)
    tasks = [(pid, j, opts) for j in jobs]
    tasks.sort(key=lambda t: -t[1].get('cost', 1))
    results = run_pool(tasks)
    canary_results = []
    if canaries is None:
        canaries = tier == 'thorough'
    if canaries and not only:
        canary_results = run_canaries(pid, mod, seed)
    return report(pid, mod, tier, seed, results, canary_results, t0, write_evidence, verbose)


def _child(task, path):
    import pickle
    res = run_job(task)
    with open(path + '.tmp', 'wb') as f:
        pickle.dump(res, f)
    os.rename(path + '.tmp', path)


def run_pool(tasks):
    """One forked process per job, at most VERIF_JOBS at a time.  A worker that dies (segfault, OOM kill) is reported
    as a crashed job (harness error) instead of hanging the run."""
    import pickle
    import tempfile
    if not tasks:
        return []
    ncpu = max(1, int(os.environ.get('VERIF_JOBS', '16')))
    n = ncpu
    ctx = multiprocessing.get_context('fork')
    scratch = tempfile.mkdtemp(prefix='vcheck-')
    tokens = ctx.Semaphore(ncpu)               # CPUs: one per running job process or forked explorer
    FORK_ENV.update(ctx=ctx, tokens=tokens, scratch=scratch)
    results = []
    pending = list(enumerate(tasks))
    running = {}
    try:
        while pending or running:
            while pending and len(running) < n and tokens.acquire(block=False):
                i, task = pending.pop(0)
                path = os.path.join(scratch, f'{i}.pkl')
                p = ctx.Process(target=_child, args=(task, path), daemon=True)
                p.start()
                running[i] = (p, path, task, time.time())
                if TRACE:
                    print(f'[start] {task[1]["name"]} pid={p.pid}', file=sys.stderr, flush=True)
            time.sleep(0.05)
            for i in list(running):
                p, path, task, t0 = running[i]
                if p.is_alive():
                    continue
                p.join()
                del running[i]
                tokens.release()
                if TRACE:
                    print(f'[done] {task[1]["name"]} {time.time() - t0:.1f}s', file=sys.stderr, flush=True)
                if os.path.exists(path):
                    with open(path, 'rb') as f:
                        results.append(pickle.load(f))
                    os.remove(path)
                else:
                    job = task[1]
                    results.append(dict(job=job['name'], paths=0, decisions=0, queries=0, solver_s=0.0, validated=0,
                                        replay_skipped=0, unproven=0, violations=[], inconclusive=[], samples=[],
                                        harness_errors=[f'worker process died with exit code {p.exitcode}'],
                                        outcomes={}, exhausted=False, functions={}, wall=time.time() - t0,
                                        bounds=job.get('bounds', {})))
    finally:
        for p, path, task, t0 in running.values():
            p.terminate()
        import shutil
        shutil.rmtree(scratch, ignore_errors=True)
    return results


def run_canaries(pid, mod, seed):
    out = []
    tasks = []
    for c in getattr(mod, 'CANARIES', []):
        job = dict(c['job'])
        job['name'] = 'canary:' + c['name']
        job['mutation'] = dict(name=c['name'], target=c['target'], mutate=c['mutate'])
        job.setdefault('halt_after_violations', 2)
        tasks.append((pid, job, dict(seed=seed, deadline=time.time() + 1200)))
    for r in run_pool(tasks):
        killed = bool(r['violations']) and not r['harness_errors']
        out.append(dict(name=r['job'], killed=killed, paths=r['paths'],
                        verdicts=sorted({v['verdict'] for v in r['violations']})[:3],
                        errors=r['harness_errors'][:2] + r['inconclusive'][:2] if not killed else []))
    return out


def report(pid, mod, tier, seed, results, canary_results, t0, write_evidence, verbose):
    known = [k for k in load_known() if k['property'] == pid]
    known_open = {k['key']: k for k in known if k.get('status') == 'known'}
    violations, inconclusive, herrors = [], [], []
    for r in results:
        violations.extend(r['violations'])
        inconclusive.extend(f"[{r['job']}] {x}" for x in r['inconclusive'])
        herrors.extend(f"[{r['job']}] {x}" for x in r['harness_errors'])
        if not r['exhausted'] and not r['inconclusive'] and not r['harness_errors']:
            inconclusive.append(f"[{r['job']}] decision tree not exhausted")
    new, listed = {}, {}
    os.makedirs(os.path.join(VERIF, 'replays', pid), exist_ok=True)
    for v in violations:
        (listed if v['key'] in known_open else new).setdefault(v['key'], v)
    lines = []
    for key, v in listed.items():
        lines.append(f'KNOWN-FINDING: property={pid} {known_open[key].get("what", key)} [{key}] e.g. {v["shown"]}')
    for key, v in new.items():
        job = {k: x for k, x in v['job'].items() if k not in ('mutation',)}
        body = dict(property=pid, key=key, verdict=v['verdict'], job=job, inputs=v['inputs'], named=v['named'])
        sha = hashlib.sha256(json.dumps(body, sort_keys=True, default=str).encode()).hexdigest()[:16]
        path = os.path.join(VERIF, 'replays', pid, sha + '.json')
        with open(path, 'w') as f:
            json.dump(body, f, indent=1, default=str)
        lines.append(f'VIOLATION property={pid} replay={path}')
        lines.append(f'  {v["verdict"]} [{key}] inputs: {v["shown"]}')
    missed = [c for c in canary_results if not c['killed']]
    for c in missed:
        lines.append(f'CANARY-MISSED property={pid} {c["name"]} {c["errors"]}')
    if herrors:
        code = 3
    elif new:
        code = 1
    elif inconclusive:
        code = 2
    else:
        code = 0
    for x in herrors[:10]:
        lines.append(f'HARNESS-ERROR property={pid} {x[:1500]}')
    for x in inconclusive[:10]:
        lines.append(f'INCONCLUSIVE property={pid} reason={x[:600]}')
    if new and herrors:
        code = 1 if all('counterexample' not in x for x in herrors) else 3
    wall = time.time() - t0
    paths = sum(r['paths'] for r in results)
    summary = (f'{pid} {tier}: jobs={len(results)} paths={paths} decisions={sum(r["decisions"] for r in results)} '
               f'queries={sum(r["queries"] for r in results)} solver_s={sum(r["solver_s"] for r in results):.1f} '
               f'replayed={sum(r["validated"] for r in results)} violations(new/known)={len(new)}/{len(listed)} '
               f'inconclusive={len(inconclusive)} harness_errors={len(herrors)} wall={wall:.1f}s exit={code}')
    lines.append(summary)
    if verbose:
        for r in sorted(results, key=lambda r: r['job']):
            lines.append(f'  [{r["job"]}] paths={r["paths"]} q={r["queries"]} wall={r["wall"]:.1f}s exhausted={r["exhausted"]} '
                         f'outcomes={dict(list(sorted(r["outcomes"].items(), key=lambda kv: -kv[1]))[:6])}')
    print('\n'.join(lines))
    sys.stdout.flush()
    if write_evidence:
        write_evidence_file(pid, mod, tier, seed, results, canary_results, listed, new, inconclusive, herrors, wall, code)
    return code


def write_evidence_file(pid, mod, tier, seed, results, canary_results, listed, new, inconclusive, herrors, wall, code):
    functions = {}
    for r in results:
        functions.update(r['functions'])
    functions = {k: dict(file=v[0], sha256_16=v[1]) for k, v in sorted(functions.items())
                 if not k.startswith('harness.')}
    samples = []
    for r in sorted(results, key=lambda r: r['job']):
        samples.extend(r['samples'][:2])
    samples = samples[:40]
    paths = sum(r['paths'] for r in results)
    ev = dict(
        property_id=pid, tier=tier, seed=seed, level='model_checking',
        coverage=dict(
            states=paths,
            transitions=sum(r['decisions'] for r in results),
            traces_validated_against_impl=sum(r['validated'] for r in results),
            samples=samples or [dict(note='no path explored')],
            exhaustive=all(r['exhausted'] for r in results) and not inconclusive and not herrors,
            explanation=('states = symbolic paths of the real source explored by symvm (each a class of concrete inputs '
                         'characterised by its path condition); transitions = solver-decided branch decisions; '
                         'traces_validated_against_impl = paths whose solver model was replayed natively on the real '
                         'code with an identical outcome'),
            jobs=[dict(name=r['job'], bounds=r['bounds'], paths=r['paths'], decisions=r['decisions'], queries=r['queries'],
                       solver_s=r['solver_s'], wall_s=round(r['wall'], 2), exhausted=r['exhausted'],
                       replayed=r['validated'], replay_skipped=r['replay_skipped'], feasibility_unproven=r['unproven'],
                       **({'queries_sent_to_cvc5_after_z3_unknown_twice': r['cvc5_queries']} if r.get('cvc5_queries') else {}),
                       outcomes=dict(list(sorted(r['outcomes'].items(), key=lambda kv: -kv[1]))[:12]))
                  for r in sorted(results, key=lambda r: r['job'])],
            solver_queries=sum(r['queries'] for r in results),
            solver_seconds=round(sum(r['solver_s'] for r in results), 2),
            functions_encoded=functions,
            outside_the_claim=getattr(mod, 'OUTSIDE', []),
            canaries=canary_results,
            known_findings_hit=sorted(listed),
            new_violations=sorted(new),
            inconclusive=inconclusive[:20],
            harness_errors=herrors[:20],
            exit_code=code,
        ),
        assumptions=list(getattr(mod, 'ASSUMPTIONS', [])),
        wall_s=round(wall, 2),
        violations=len(new),
    )
    os.makedirs(os.path.join(VERIF, 'evidence'), exist_ok=True)
    with open(os.path.join(VERIF, 'evidence', pid + '.json'), 'w') as f:
        json.dump(ev, f, indent=1, default=str)


def replay_file(path):
    body = json.load(open(path))
    pid = body['property']
    mod = load_harness(pid)
    job = body['job']
    job['args'] = tuple(job.get('args', ()))
    inputs = inputs_from_json(body['inputs'])
    nat, nvm = native_run(mod, job, inputs, body.get('named', {}), job.get('watchdog', 10.0))
    on_bound = getattr(mod, 'on_bound', default_on_bound)
    verdict = nat[1] if nat[0] == 'ret' else on_bound(job, nat)
    print(f'replay property={pid} job={job["name"]} inputs: {show_inputs(inputs, body.get("named", {}))}')
    print(f'native outcome: {nat[0]}:{nat[1]}')
    if isinstance(verdict, str) and verdict.startswith('VIOLATION'):
        print(f'VIOLATION property={pid} replay={path}')
        return 1
    print('not reproduced')
    return 0
