"""Cooperative scheduler for properties whose subject is the interleaving of coroutines (C14).

Each task runs in its own OS thread with strict hand-off: exactly one thread runs at a time, control returns to the
scheduler at every `yield_()` (placed in the stubs at the awaits of database calls) and the scheduler's choice of the
next runnable task is an ordinary solver-chosen input (`vm.pick`), so the decision tree enumerates every interleaving
at await granularity.  The same class drives the native replay (real coroutines, same schedule from the model)."""
import threading

threading.stack_size(512 * 1024 * 1024)


def _is_locked(lock):
    v = lock.locked
    return v() if callable(v) else v


class Abort(BaseException):
    pass


class Task:
    def __init__(self, fn, args):
        self.fn, self.args = fn, args
        self.go = threading.Semaphore(0)
        self.done = False
        self.err = None
        self.started = False
        self.blocked = None
        self.thread = None


class Sched:
    def __init__(self, vm, max_steps=200, preempt_bound=None):
        self.preempt_bound = preempt_bound      # context bound: at most this many switches away from a task that could continue
        self.preemptions = 0
        self.last = None
        self.vm = vm
        self.tasks = []
        self.back = threading.Semaphore(0)
        self.cur = None
        self.abort = False
        self.steps = 0
        self.max_steps = max_steps
        self.trace = []

    def spawn(self, fn, args):
        self.tasks.append(Task(fn, args))

    def _body(self, t):
        t.go.acquire()
        try:
            if self.abort:
                raise Abort()
            if getattr(self.vm, 'native', False):
                t.fn(*t.args)
            else:
                from . import sv
                sv._vm = self.vm
                self.vm.call(t.fn, list(t.args), {})
        except Abort:
            pass
        except BaseException as e:
            t.err = e
        t.done = True
        self.back.release()

    def block_on(self, lock):
        """Called by a model lock: the current task is not runnable until `lock.locked` is false."""
        t = self.cur
        t.blocked = lock
        self.yield_('lock-wait')
        t.blocked = None

    def yield_(self, why=''):
        t = self.cur
        if t is None:
            return                      # called outside a task (sequential part of the harness)
        self.back.release()
        t.go.acquire()
        if self.abort:
            raise Abort()

    def run_all(self):
        depth0 = getattr(self.vm, 'depth', 0)
        try:
            while True:
                if all(t.done for t in self.tasks):
                    break
                live = [t for t in self.tasks if not t.done and not (t.blocked is not None and _is_locked(t.blocked))]
                if not live:
                    raise RuntimeError('deadlock: every unfinished task waits for a lock')
                if self.preempt_bound is not None and self.last in live and self.preemptions >= self.preempt_bound:
                    pick = self.last                      # the bound is used up: the running task continues until it ends or blocks
                else:
                    i = self.vm.pick('sched', len(live)) if len(live) > 1 else 0
                    pick = live[i]
                    if self.last in live and pick is not self.last:
                        self.preemptions += 1
                self.last = pick
                self.trace.append(self.tasks.index(pick))
                if not pick.started:
                    pick.started = True
                    pick.thread = threading.Thread(target=self._body, args=(pick,), daemon=True)
                    pick.thread.start()
                self.cur = pick
                saved = getattr(self.vm, 'depth', 0)
                pick.go.release()
                self.back.acquire()
                self.cur = None
                if hasattr(self.vm, 'depth'):
                    self.vm.depth = saved
                if pick.err is not None:
                    raise pick.err
                self.steps += 1
                if self.steps > self.max_steps:
                    from .sv import BoundExceeded
                    raise BoundExceeded('scheduler step bound')
        finally:
            self.abort = True
            for t in self.tasks:
                if t.started and not t.done:
                    t.go.release()
            for t in self.tasks:
                if t.started:
                    t.thread.join()
            if hasattr(self.vm, 'depth'):
                self.vm.depth = depth0
