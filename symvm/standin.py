"""Stand-in objects of the harnesses (stub ledgers, protocols, peer managers ...) provide what the code under analysis used when
the harness was written.  When changed code reaches for an attribute a stand-in does not have, that is a gap of the harness and
says nothing about the property: the access raises StandInGap (an AttributeError, so hasattr / getattr-with-default / `except
AttributeError` in the analysed code keep working), and the runner reports a verdict that mentions it as INCONCLUSIVE, never as
a violation - a harmless refactoring that adds a field to a real constructor must not raise an alarm."""
import sys


class StandInGap(AttributeError):
    pass


def _gap(self, name):
    if name.startswith('__') and name.endswith('__'):
        raise AttributeError(name)
    raise StandInGap('harness stand-in %s has no attribute %r' % (type(self).__name__, name))


def guard_harness_classes():
    """Give every plain class defined in a harness module (no base outside the harness modules) the gap-reporting __getattr__."""
    for mod_name, mod in list(sys.modules.items()):
        if mod is None or not (mod_name == 'harness' or mod_name.startswith('harness.')):
            continue
        for obj in list(vars(mod).values()):
            if not isinstance(obj, type) or not obj.__module__.startswith('harness'):
                continue
            if issubclass(obj, BaseException):
                continue
            if any(not (c is object or c.__module__.startswith('harness')) for c in obj.__mro__):
                continue
            if any('__getattr__' in vars(c) for c in obj.__mro__ if c is not object):
                continue
            try:
                obj.__getattr__ = _gap
            except (TypeError, AttributeError):
                pass


GAP_MARK = 'StandInGap'
