"""symvm: bounded symbolic interpreter for the real source of /repo's functions.

A recursive AST evaluator over symbolic values (terms of symvm.tz, decided by z3) with a persistent decision
tree and re-execution (see DESIGN.md section 3.1).  Functions whose module matches `interp_prefixes` are fetched
with inspect.getsource from the *current* working tree and interpreted; everything else is either a registered
model or is called natively on concrete arguments.  Exploration is exhaustive within the harness bounds: a run
ends when the root of the decision tree is exhausted; loops beyond their bound raise BoundExceeded and
unsupported constructs raise Unsupported - both end the run inconclusive, never as a pass."""
import hashlib
import os
import threading
import ast
import builtins
import dataclasses
import inspect
import operator
import textwrap
import time
import types
import functools

from . import tz as z3

from . import sv
from .sv import (SInt, SBool, SBytes, Run, Sym, Unsupported, BoundExceeded, is_sym, deep_sym,
                mk_bool, mk_int, mk_bytes, zint, zbool, s_not, atoms_of)


class ReturnEx(BaseException):
    def __init__(self, v):
        self.v = v


class BreakEx(BaseException):
    pass


class ContinueEx(BaseException):
    pass


VM_SIGNALS = ()


class Node:
    __slots__ = ('parent', 'kids', 'done', 'expanded', 'model', 'unproven')

    def __init__(self, parent):
        self.model = None
        self.unproven = False
        self.parent = parent
        self.kids = {}
        self.done = False
        self.expanded = False


class InterpFunction:
    """Function object created by interpreted code (def/lambda/comprehension)."""

    def __init__(self, vm, node, frame, defaults, kwdefaults, name):
        self.vm = vm
        self.node = node
        self.frame = frame
        self.defaults = defaults
        self.kwdefaults = kwdefaults
        self.__name__ = name

    def __call__(self, *a, **k):  # native callers (e.g. callbacks from models)
        return self.vm.call(self, list(a), k)


class Frame:
    __slots__ = ('env', 'glob', 'parent', 'nonlocals', 'globals_decl', 'cls')

    def __init__(self, env, glob, parent=None, cls=None):
        self.env = env
        self.glob = glob
        self.parent = parent
        self.nonlocals = set()
        self.globals_decl = set()
        self.cls = cls


class Cell:
    def __init__(self, cell):
        self.cell = cell


BIN = {ast.Add: operator.add, ast.Sub: operator.sub, ast.Mult: operator.mul, ast.Mod: operator.mod,
       ast.FloorDiv: operator.floordiv, ast.Div: operator.truediv, ast.Pow: operator.pow,
       ast.BitAnd: operator.and_, ast.BitOr: operator.or_, ast.BitXor: operator.xor,
       ast.LShift: operator.lshift, ast.RShift: operator.rshift}
CMP = {ast.Lt: operator.lt, ast.LtE: operator.le, ast.Gt: operator.gt, ast.GtE: operator.ge}



def _real_world():
    import builtins
    import shutil
    import subprocess
    import tempfile
    out = {builtins.open}
    for name in ('open', 'fdopen', 'write', 'remove', 'unlink', 'rename', 'renames', 'replace', 'mkdir', 'makedirs', 'rmdir',
                 'removedirs', 'truncate', 'ftruncate', 'chmod', 'fchmod', 'chown', 'link', 'symlink', 'utime', 'kill', 'system',
                 'fork', '_exit', 'popen', 'execv', 'execve', 'execvp', 'spawnv', 'mkfifo', 'chdir', 'putenv', 'unsetenv'):
        f = getattr(os, name, None)
        if f is not None:
            out.add(f)
    for mod, names in ((shutil, ('copy', 'copy2', 'copyfile', 'copytree', 'move', 'rmtree', 'copymode', 'copystat')),
                       (subprocess, ('run', 'call', 'check_call', 'check_output', 'Popen')),
                       (tempfile, ('mkstemp', 'mkdtemp', 'NamedTemporaryFile', 'TemporaryFile', 'TemporaryDirectory'))):
        for name in names:
            out.add(getattr(mod, name))
    return frozenset(out)


REAL_WORLD = _real_world()


class VM:
    def __init__(self, interp_prefixes=('lbry',)):
        self.solver = z3.Solver()
        self.root = Node(None)
        self.nq = 0
        self.tq = 0.0
        self.fcache = {}
        self.interp_prefixes = tuple(interp_prefixes)
        self.models = {}        # id(callable) -> model(vm, args, kwargs)
        self.method_models = {}  # (type, name) -> model(vm, self, args, kwargs)
        self.type_models = {}   # class -> model for construction
        self.static_models = {}
        self.noop_types = ()
        self.fresh = 0
        self.funcs_seen = {}
        self.loop_bound = 400
        self.total_decisions = 0
        self.n_unknown = 0
        self.query_timeout_ms = 10000
        self.incremental_timeout_ms = 1500
        self.n_fresh = 0
        self.n_cvc5 = 0
        self.cvc5_fallback = False     # job option: ask cvc5 where z3 answers unknown twice
        self.fork_ctl = None          # symvm.forkctl.ForkCtl: fork at two-sided branches instead of re-executing
        self.on_fork_child = None
        self.fork_collect = None
        self.fork_paths = None
        self._helpers = []
        self.halt_requested = False
        self.lazy_async = set()          # qualnames of async functions whose coroutines start at their await (tasks), see LazyCoro
        self.begin_path()
        from . import models
        models.install(self)
        from . import models_str
        models_str.install(self)

    # ------------------------------------------------------------ exploration
    def begin_path(self):
        sv._vm = self
        self.pc = []
        self.synced = False
        self.node = self.root
        self.fresh = 0
        self.decisions = 0
        self.decided = {}
        self.path_cache = {}
        self.keep = []
        self.depth = 0
        self.inputs = []          # harness-level symbolic inputs in creation order: (kind, name, payload)
        self.named = {}           # harness-level named inputs (lazily created): name -> (kind, payload)
        self.unproven = False     # path passed through a side whose feasibility z3 could not decide
        self.universe = []        # byte strings in existence (for the freshness of ideal-function outputs)
        self.run_bytes = []       # (run id, offset term, byte term): bytes read from inside opaque runs
        self.ideal_log = []       # (function name, output bytes) of every new ideal-function call, in order
        self.run_fill = {}        # run id -> repeating content declared by the harness (None: opaque)
        self.notes = []

    def explore(self, entry, max_paths=10 ** 9, on_path=None, deadline=None):
        """Run `entry(vm)` once per path until the decision tree is exhausted.  `on_path(vm, rec)` is called at the
        end of every feasible path while the path condition is still loaded.  Returns a summary dict."""
        t0 = time.time()
        paths = 0
        infeasible = 0
        outcomes = {}
        stop = None
        while not self.root.done:
            if paths >= max_paths:
                stop = 'path cap %d reached' % max_paths
                break
            if deadline is not None and time.time() > deadline:
                stop = 'deadline reached'
                break
            if self.halt_requested or (self.fork_ctl is not None and self.fork_ctl.halt.value):
                stop = 'halted: the job has what it was looking for'
                break
            self.begin_path()
            try:
                r = ('ret', entry(self))
            except Infeasible:
                r = ('infeasible', '')
            except Unsupported as e:
                r = ('unsupported', str(e))
            except BoundExceeded as e:
                r = ('bound', str(e))
            except (ReturnEx, BreakEx, ContinueEx) as e:
                r = ('internal', type(e).__name__)
            except BaseException as e:  # behaviour of the program under test (incl. CancelledError)
                if isinstance(e, (KeyboardInterrupt, SystemExit)):
                    raise
                r = ('exc', type(e).__name__ + ':' + str(e)[:80])
            n = self.node
            n.done = True
            n.expanded = True
            p = n.parent
            while p is not None and all(k is None or k.done for k in p.kids.values()):
                p.done = True
                p = p.parent
            if self.fork_paths is not None:        # just became a forked child: count only the own subtree
                paths, infeasible, outcomes, self.fork_paths = 0, 0, {}, None
            if r[0] == 'infeasible':
                infeasible += 1
                continue
            paths += 1
            self.total_decisions += self.decisions
            key = r[0] + ':' + (r[1] if r[0] != 'ret' else self.describe(r[1]))
            outcomes[key] = outcomes.get(key, 0) + 1
            if on_path:
                on_path(self, PathRec(r, self.decisions, self.unproven, n))
        summary = dict(paths=paths, outcomes=outcomes, wall=time.time() - t0, exhausted=self.root.done,
                       queries=self.nq, solver_s=self.tq, decisions=self.total_decisions, stop=stop,
                       infeasible_unproven=infeasible, unknown_queries=self.n_unknown, cvc5_queries=self.n_cvc5)
        if self.fork_ctl is not None and self.fork_ctl.is_child:
            self.fork_ctl.child_exit(self.fork_collect(summary) if self.fork_collect else summary)   # does not return
        return summary

    def describe(self, v):
        return type(v).__name__ if not isinstance(v, (bool, type(None), str)) else (v if isinstance(v, str) else repr(v))

    def _sync(self):
        if not self.synced:
            self.solver.reset()
            self.solver.add(self.pc)
            self.synced = True

    def query(self, extra, want_model=False, timeout_ms=None):
        """pc AND extra: returns (status, model) with status in 'sat', 'unsat', 'unknown'."""
        t = time.time()
        self._sync()
        self.solver.push()
        full = timeout_ms if timeout_ms is not None else self.query_timeout_ms
        quick = min(full, self.incremental_timeout_ms)
        self.solver.s.set('timeout', quick)
        try:
            self.solver.add(extra)
            r = self.solver.check()
            m = z3.model_dict(self.solver.model()) if (r == z3.sat and want_model) else None
        finally:
            self.solver.pop()
            self.solver.s.set('timeout', self.query_timeout_ms)
        if r == z3.unknown:
            # second opinion from a fresh non-incremental solver (different strategy inside z3)
            r, m = z3.check_fresh(list(self.pc) + [extra], full, want_model)
            self.n_fresh += 1
            if r == z3.unknown and self.cvc5_fallback:
                # third opinion: the identical SMT-LIB2 text decided by cvc5 (a sat answer is only used through its model,
                # which the VM re-evaluates and the native replay confirms; an unsat answer prunes the branch)
                r, m = z3.check_cvc5(list(self.pc) + [extra], full, want_model)
                self.n_cvc5 += 1
        self.nq += 1
        self.tq += time.time() - t
        if r == z3.unknown:
            self.n_unknown += 1
            return 'unknown', None
        return ('sat' if r == z3.sat else 'unsat'), m

    def sat(self, extra):
        st, _ = self.query(extra)
        if st == 'unknown':
            raise Unsupported('solver unknown (entailment)')
        return st == 'sat'

    def sat_model(self, extra):
        """model dict, None (unsat) or UNKNOWN."""
        st, m = self.query(extra, want_model=True)
        if st == 'unknown':
            return UNKNOWN
        return m

    def add_pc(self, e, from_branch=False):
        self.pc.append(e)
        if self.synced:
            self.solver.add(e)
        if not from_branch:
            n = self.node
            if n.model is not None:
                try:
                    ok = bool(z3.evaluate(e, n.model))
                except NotImplementedError:
                    ok = False
                if not ok:
                    n.model = None   # stale witness: recomputed at the next expansion

    def assume(self, cond):
        """Constrain inputs (precondition)."""
        if isinstance(cond, SBool):
            self.add_pc(cond.e)
        elif not cond:
            raise Infeasible()

    def path_model(self, timeout_ms=None):
        """A model (dict) of the current path condition, None if infeasible, UNKNOWN if undecided."""
        m = self.node.model
        if m is not None:
            try:
                if all(z3.evaluate(e, m) for e in self.pc):
                    return m
            except NotImplementedError:
                pass
        st, m = self.query(z3.TRUE, want_model=True, timeout_ms=timeout_ms)
        if st == 'unknown':
            return UNKNOWN
        return m

    def branch(self, c):
        if not isinstance(c, SBool):
            if isinstance(c, Sym):
                return self.truth(c)
            return bool(c)
        e = c.e
        key = e.get_id()
        hit = self.decided.get(key)
        if hit is not None:
            return hit
        if z3.is_not(e):
            hit = self.decided.get(e.arg(0).get_id())
            if hit is not None:
                return not hit
        side = self._branch(e)
        self.decided[key] = side
        self.keep.append(e)
        return side

    def _branch(self, e):
        n = self.node
        if not n.expanded:
            if n.model is None:
                m = self.sat_model(z3.TRUE)
                if m is None:
                    raise Infeasible()      # only an assume() (or a refuted unproven side) can empty a path
                n.model = None if m is UNKNOWN else m
            val = None
            if n.model is not None:
                try:
                    val = bool(z3.evaluate(e, n.model))
                except NotImplementedError:
                    val = None
            for side in (True, False):
                if val is side:
                    k = Node(n)
                    k.model = n.model
                else:
                    m = self.sat_model(e if side else z3.Not(e))
                    k = None
                    if m is UNKNOWN:
                        k = Node(n)
                        k.unproven = True
                    elif m is not None:
                        k = Node(n)
                        k.model = m
                n.kids[side] = k
            n.model = None
            n.expanded = True
            kt, kf = n.kids[True], n.kids[False]
            if self.fork_ctl is not None and kt is not None and kf is not None and threading.active_count() == 1:
                role = self.fork_ctl.fork()
                if role == 'parent':
                    kf.done = True                 # that subtree now belongs to the child
                elif role == 'child':
                    kt.done = True
                    a = n
                    while a.parent is not None:    # everything outside the subtree belongs to somebody else
                        for kid in a.parent.kids.values():
                            if kid is not None and kid is not a:
                                kid.done = True
                        a = a.parent
                    self.nq, self.tq, self.total_decisions, self.n_unknown, self.n_cvc5 = 0, 0.0, 0, 0, 0
                    self.fork_paths = 0
                    if self.on_fork_child:
                        self.on_fork_child()
        self.decisions += 1
        for side in (True, False):
            k = n.kids[side]
            if k is not None and not k.done:
                self.add_pc(e if side else z3.Not(e), from_branch=True)
                self.node = k
                if k.unproven:
                    self.unproven = True
                return side
        raise RuntimeError('revisiting exhausted node')

    def _is_wide(self, v):
        lo, hi = z3.bounds(zint(v))
        return lo is None or hi is None or hi > 2 ** 32 or lo < -2 ** 32

    def path_bounds(self, t):
        """Interval of an Int term: its own interval tightened by comparisons with constants already on the path."""
        lo, hi = z3.bounds(t)
        if t.op == 'add' and t.args[-1].op == 'const' and len(t.args) == 2:
            l2, h2 = self.path_bounds(t.args[0])
            k = t.args[-1].args[0]
            l2 = None if l2 is None else l2 + k
            h2 = None if h2 is None else h2 + k
            lo = l2 if lo is None else (lo if l2 is None else max(lo, l2))
            hi = h2 if hi is None else (hi if h2 is None else min(hi, h2))
        for e in self.pc:
            neg = e.op == 'not'
            c = e.args[0] if neg else e
            if c.op == 'le':
                a, b = c.args
                if a is t and b.op == 'const':          # t <= k   /  not: t > k
                    k = b.args[0]
                    if neg:
                        lo = k + 1 if lo is None else max(lo, k + 1)
                    else:
                        hi = k if hi is None else min(hi, k)
                elif b is t and a.op == 'const':        # k <= t   /  not: t < k
                    k = a.args[0]
                    if neg:
                        hi = k - 1 if hi is None else min(hi, k - 1)
                    else:
                        lo = k if lo is None else max(lo, k)
            elif c.op == 'eq' and not neg:
                a, b = c.args
                if a is t and b.op == 'const':
                    lo = hi = b.args[0]
                elif b is t and a.op == 'const':
                    lo = hi = a.args[0]
        return lo, hi

    def choose_int(self, v, lo, hi):
        """Concretise a symbolic int known to lie in [lo, hi] by forking."""
        if not isinstance(v, SInt):
            return v
        while lo < hi:                       # binary search: O(log n) decisions per path
            mid = (lo + hi) // 2
            if self.branch(mk_bool(v.e <= mid)):
                hi = mid
            else:
                lo = mid + 1
        return lo

    def pick(self, name, n):
        """Concrete index in [0, n) chosen by the solver (one path per feasible value)."""
        return self.choose_int(self.new_int(name, 0, n - 1), 0, n - 1)

    def _fresh_int(self, name, lo=None, hi=None):
        self.fresh += 1
        return SInt(z3.Int(f'{name}!{self.fresh}', lo, hi))

    def _fresh_bv8(self, name):
        self.fresh += 1
        return z3.BitVec(f'{name}!{self.fresh}', 8)

    def new_int(self, name, lo=None, hi=None):
        v = self._fresh_int(name, lo, hi)
        self.inputs.append(('int', name, v.e))
        return v

    def new_bool(self, name):
        self.fresh += 1
        v = SBool(z3.Bool(f'{name}!{self.fresh}'))
        self.inputs.append(('bool', name, v.e))
        return v

    def new_bytes(self, name, n, bv=False):
        if bv:
            out = []
            for i in range(n):
                self.fresh += 1
                out.append(z3.BitVec(f'{name}[{i}]!{self.fresh}', 8))
            r = SBytes(out)
        else:
            r = SBytes([self._fresh_int(f'{name}[{i}]', 0, 255).e for i in range(n)])
        self.inputs.append(('bytes', name, list(r.a)))
        if n:
            self.universe.append(r)
        return r if n else b''

    def new_str(self, name, n, lo=0, hi=0x10FFFF):
        from . import models_str as ms
        atoms = [self._fresh_int(f'{name}[{i}]', lo, hi).e for i in range(n)]
        self.inputs.append(('str', name, atoms))
        return ms.SStr(atoms) if n else ''

    def new_run(self, name, lo=0, hi=None, fill=None):
        """Opaque run of bytes of symbolic length in [lo, hi]; content uninterpreted.  `fill` is only a hint for the
        native replay (how to materialise the content)."""
        ln = self._fresh_int(name + '.len', lo, hi)
        self.fresh += 1
        rid = f'{name}!{self.fresh}'
        self.inputs.append(('run', name, (rid, ln.e, fill)))
        if isinstance(fill, (bytes, bytearray)):
            self.run_fill[rid] = bytes(fill)
        if lo == hi and lo is not None:
            return SBytes([Run(rid, 0, lo)]) if lo else b''
        return SBytes([Run(rid, 0, ln.e)])

    def named_bool(self, name):
        """Lazily created boolean input identified by name (not by creation order)."""
        hit = self.named.get(name)
        if hit is None:
            hit = self.named[name] = ('bool', z3.Bool('$' + name))
        return SBool(hit[1])

    def named_int(self, name, lo=None, hi=None):
        hit = self.named.get(name)
        if hit is None:
            hit = self.named[name] = ('int', z3.Int('$' + name, lo, hi))
        return SInt(hit[1])

    def note(self, *a):
        self.notes.append(a)

    # non-forking boolean combinators for harness oracles (a conjunction of many symbolic facts costs one decision)
    def _b(self, x):
        if isinstance(x, SBool):
            return x.e
        if isinstance(x, Sym):
            return zbool(mk_bool(zint(x) != 0)) if isinstance(x, SInt) else self._b(self.truth(x))
        return z3.BoolVal(bool(x))

    def all_of(self, conds):
        return mk_bool(z3.And([self._b(c) for c in conds]))

    def any_of(self, conds):
        return mk_bool(z3.Or([self._b(c) for c in conds]))

    def not_(self, c):
        return mk_bool(z3.Not(self._b(c)))

    def implies(self, a, b):
        return mk_bool(z3.Or(z3.Not(self._b(a)), self._b(b)))

    def ite(self, c, a, b):
        """Value selection without forking (ints only)."""
        if not isinstance(c, SBool):
            return a if c else b
        return mk_int(z3.If(c.e, zint(a), zint(b)))

    native = False

    def register_helper(self, name, fn):
        """Attach a harness helper that runs natively (outside the interpreter) even on symbolic arguments."""
        setattr(self, name, fn)
        self._helpers.append(fn)
        self.models[id(fn)] = lambda vm, a, k, fn=fn: fn(*a, **k)

    def concretise_inputs(self, model):
        """Harness inputs as concrete python values under `model` (creation order) plus the named inputs."""
        out = []
        for kind, name, p in self.inputs:
            if kind in ('int',):
                out.append((kind, name, int(z3.evaluate(p, model))))
            elif kind == 'bool':
                out.append((kind, name, bool(z3.evaluate(p, model))))
            elif kind == 'bytes':
                out.append((kind, name, bytes(int(z3.evaluate(x, model)) if z3.is_expr(x) else x for x in p)))
            elif kind == 'str':
                out.append((kind, name, [int(z3.evaluate(x, model)) if z3.is_expr(x) else x for x in p]))
            elif kind == 'run':
                rid, ln, fill = p
                out.append((kind, name, (rid, int(z3.evaluate(ln, model)) if z3.is_expr(ln) else ln, fill)))
            else:
                raise RuntimeError('input kind ' + kind)
        named = {}
        for rid, off, b in self.run_bytes:
            o = int(z3.evaluate(off, model)) if z3.is_expr(off) else off
            named[f'runbyte|{rid}|{o}'] = int(z3.evaluate(b, model))
        counts = {}
        for fname, hout in self.ideal_log:
            k = counts.get(fname, 0)
            counts[fname] = k + 1
            named[f'ideal|{fname}|{k}'] = bytes(int(z3.evaluate(x, model)) if z3.is_expr(x) else x for x in hout.a).hex()
        for name, (kind, t) in self.named.items():
            v = z3.evaluate(t, model)
            named[name] = bool(v) if kind == 'bool' else int(v)
        return out, named

    def bvcmp(self, t, a, b):
        def view(x):
            if isinstance(x, SInt) and x.bv:
                return x.bv
            return None
        va, vb = view(a), view(b)
        if va is None and vb is None:
            return None
        if (va is None and not isinstance(a, int)) or (vb is None and not isinstance(b, int)):
            return None
        w = max(va[1] if va else 0, vb[1] if vb else 0)
        for c, other_is_left in ((a, False), (b, True)):
            if isinstance(c, int) and not isinstance(c, bool):
                if c < 0 or c >= (1 << w):
                    big = c >= (1 << w)
                    if t is ast.Eq:
                        return False
                    if other_is_left:   # a <op> c
                        return {ast.Lt: big, ast.LtE: big, ast.Gt: not big, ast.GtE: not big}[t]
                    return {ast.Lt: not big, ast.LtE: not big, ast.Gt: big, ast.GtE: big}[t]
        def bvof(x, v):
            if v is None:
                return z3.BitVecVal(x, w)
            return z3.ZeroExt(w - v[1], v[0])
        x, y = bvof(a, va), bvof(b, vb)
        if t is ast.Eq:
            return mk_bool(z3.bveq(x, y))
        return mk_bool({ast.Lt: z3.ULT(x, y), ast.LtE: z3.ULE(x, y), ast.Gt: z3.ULT(y, x), ast.GtE: z3.ULE(y, x)}[t])

    # ------------------------------------------------------------ truth / compare
    def truth(self, v):
        if isinstance(v, SBool):
            return self.branch(v)
        if isinstance(v, SInt):
            return self.branch(mk_bool(v.e != 0))
        if isinstance(v, SBytes):
            ln = v.length()
            return self.branch(mk_bool(zint(ln) > 0)) if is_sym(ln) else ln > 0
        from . import models_str as ms
        if isinstance(v, ms.SStr):
            return len(v.a) > 0
        if isinstance(v, (ms.SFloat,)):
            return True                 # an SFloat is a non-zero normal number by construction
        if isinstance(v, Sym):
            raise Unsupported('truth of ' + type(v).__name__)
        if self.is_interp_class(type(v)):
            for name in ('__bool__', '__len__'):
                m = self.static_lookup(type(v), name)
                if m is not None and self.is_interp_callable(m):
                    r = self.call(m, [v], {})
                    return self.truth(r) if name == '__bool__' else self.truth(self.compare(ast.Gt(), r, 0))
        return bool(v)

    def eq(self, a, b):
        if a is b:
            return True
        for x, y in ((a, b), (b, a)):
            h = getattr(type(x), '__symeq__', None)       # harness-level symbolic tokens decide their own equality
            if h is not None:
                return h(x, y, self)
        from . import models_str as ms
        if isinstance(a, ms.SStr) or isinstance(b, ms.SStr):
            if not isinstance(a, (ms.SStr, str)) or not isinstance(b, (ms.SStr, str)):
                return False
            aa, bb = ms.str_atoms(a), ms.str_atoms(b)
            if len(aa) != len(bb):
                return False
            cs = [ms.zt(x) == ms.zt(y) for x, y in zip(aa, bb) if not (isinstance(x, int) and isinstance(y, int) and x == y)]
            for x, y in zip(aa, bb):
                if isinstance(x, int) and isinstance(y, int) and x != y:
                    return False
            return mk_bool(z3.And(cs)) if cs else True
        if isinstance(a, (SBytes, bytes, bytearray)) and isinstance(b, (SBytes, bytes, bytearray)):
            return self.bytes_eq(a, b)
        if isinstance(a, SBool) or isinstance(b, SBool):
            if isinstance(a, (SBool, bool)) and isinstance(b, (SBool, bool)):
                return mk_bool(zbool(a) == zbool(b))
            if isinstance(a, (int, SInt)) or isinstance(b, (int, SInt)):
                raise Unsupported('bool/int mixed eq')
            return False
        if isinstance(a, SInt) or isinstance(b, SInt):
            if isinstance(a, (SInt, int)) and isinstance(b, (SInt, int)):
                r = self.bvcmp(ast.Eq, a, b)
                if r is not None:
                    return r
                return mk_bool(zint(a) == zint(b))
            return False
        if isinstance(a, Sym) or isinstance(b, Sym):
            return False
        if isinstance(a, (tuple, list)) and type(a) is type(b) or \
                (isinstance(a, tuple) and isinstance(b, tuple)):
            if len(a) != len(b):
                return False
            if not deep_sym(a) and not deep_sym(b):
                return a == b
            for x, y in zip(a, b):
                if not self.truth(self.eq(x, y)):
                    return False
            return True
        if isinstance(a, dict) and isinstance(b, dict):
            if len(a) != len(b):
                return False
            if not deep_sym(a) and not deep_sym(b) and not any(isinstance(k, SKey) for k in list(a) + list(b)):
                return a == b
            for k, v in a.items():
                kk = k.v if isinstance(k, SKey) else k
                other = self.dict_find(b, kk)
                if other is MISSING or not self.truth(self.eq(v, other)):
                    return False
            return True
        ta = type(a)
        if self.is_interp_class(ta):
            if dataclasses.is_dataclass(ta) and ta.__dataclass_params__.eq:
                if type(b) is not ta:
                    return False
                fa = tuple(getattr(a, f.name) for f in dataclasses.fields(ta) if f.compare)
                fb = tuple(getattr(b, f.name) for f in dataclasses.fields(ta) if f.compare)
                return self.eq(fa, fb)
            m = self.static_lookup(ta, '__eq__')
            if m is not None and self.is_interp_callable(m):
                return self.call(m, [a, b], {})
        return a == b

    def bytes_eq(self, a, b):
        aa, bb = atoms_of(a), atoms_of(b)
        if any(isinstance(x, Run) for x in aa) or any(isinstance(x, Run) for x in bb):
            return self.runs_eq(aa, bb)
        if len(aa) != len(bb):
            return False
        aa, bb = unhex_pairs(aa, bb)
        cs = []
        for x, y in zip(aa, bb):
            if isinstance(x, int) and isinstance(y, int):
                if x != y:
                    return False
            elif (z3.is_expr(x) and x.sort == z3.BV) or (z3.is_expr(y) and y.sort == z3.BV):
                bx = x if z3.is_expr(x) and x.sort == z3.BV else (z3.BitVecVal(x, 8) if isinstance(x, int) else z3.Int2BV(x, 8))
                by = y if z3.is_expr(y) and y.sort == z3.BV else (z3.BitVecVal(y, 8) if isinstance(y, int) else z3.Int2BV(y, 8))
                cs.append(z3.bveq(bx, by))
            else:
                cs.append(zint(SInt(x) if not isinstance(x, int) else x) == zint(SInt(y) if not isinstance(y, int) else y))
        return mk_bool(z3.And(cs)) if cs else True

    def runs_eq(self, aa, bb):
        """Equality of byte strings containing opaque runs: the two atom lists are aligned piece by piece (forking on
        the relative lengths).  Windows of distinct runs - and distinct windows of one run - are unequal (opaque contents
        are distinct values; an equal pair is created by reusing the same window)."""
        la, lb = mk_bytes_len(aa), mk_bytes_len(bb)
        if not self.truth(mk_bool(zint(la) == zint(lb))):
            return False
        na, nb = self.norm_atoms(aa), self.norm_atoms(bb)
        i = j = 0
        offa = offb = z3.IntVal(0)
        cs = []
        guard = 0
        while i < len(na) and j < len(nb):
            guard += 1
            if guard > 4000:
                raise BoundExceeded('run alignment')
            x, y = na[i], nb[j]
            lx = zint(x.length) if isinstance(x, Run) else z3.IntVal(1)
            ly = zint(y.length) if isinstance(y, Run) else z3.IntVal(1)
            rx, ry = z3.simplify(lx - offa), z3.simplify(ly - offb)
            if self.truth(mk_bool(rx == ry)):
                step, adv_a, adv_b = rx, True, True
            elif self.truth(mk_bool(rx < ry)):
                step, adv_a, adv_b = rx, True, False
            else:
                step, adv_a, adv_b = ry, False, True
            if isinstance(x, Run) and isinstance(y, Run):
                if self.truth(mk_bool(step > 0)):
                    if x.rid != y.rid:
                        return False
                    if not self.truth(mk_bool(z3.simplify(zint(x.off) + offa) == z3.simplify(zint(y.off) + offb))):
                        return False
            elif isinstance(x, Run) or isinstance(y, Run):
                if self.truth(mk_bool(step > 0)):
                    raise Unsupported('comparison of an opaque run with concrete/symbolic bytes')
            else:
                cs.append(atom_z(x) == atom_z(y))
            if adv_a:
                i += 1
                offa = z3.IntVal(0)
            else:
                offa = z3.simplify(offa + step)
            if adv_b:
                j += 1
                offb = z3.IntVal(0)
            else:
                offb = z3.simplify(offb + step)
        return mk_bool(z3.And(cs)) if cs else True

    def norm_atoms(self, atoms):
        out = []
        for x in atoms:
            if isinstance(x, Run):
                if not is_sym_len(x.length) and x.length == 0:
                    continue
                if out and isinstance(out[-1], Run) and out[-1].rid == x.rid:
                    p = out[-1]
                    if self.entails(zint(p.off) + zint(p.length) == zint(x.off)):
                        out[-1] = Run(p.rid, p.off, z3.simplify(zint(p.length) + zint(x.length)))
                        continue
                if z3.is_expr(x.length) and self.entails(x.length == 0):
                    continue
            out.append(x)
        return out

    def entails(self, e):
        e = z3.simplify(e)
        if z3.is_true(e):
            return True
        if z3.is_false(e):
            return False
        return not self.sat(z3.Not(e))

    def compare(self, op, a, b):
        t = type(op)
        if t is ast.Eq:
            return self.eq(a, b)
        if t is ast.NotEq:
            return s_not(self.eq(a, b))
        if t in CMP:
            if isinstance(a, (SInt, SBool)) or isinstance(b, (SInt, SBool)):
                if isinstance(a, (SInt, int)) and isinstance(b, (SInt, int)):
                    r = self.bvcmp(t, a, b)
                    if r is not None:
                        return r
                    x, y = zint(a), zint(b)
                    return mk_bool({ast.Lt: x < y, ast.LtE: x <= y, ast.Gt: x > y, ast.GtE: x >= y}[t])
                refl = {ast.Lt: '__gt__', ast.LtE: '__ge__', ast.Gt: '__lt__', ast.GtE: '__le__'}[t]
                direct = {ast.Lt: '__lt__', ast.LtE: '__le__', ast.Gt: '__gt__', ast.GtE: '__ge__'}[t]
                for obj, other, name in ((a, b, direct), (b, a, refl)):
                    if not is_sym(obj) and self.is_interp_class(type(obj)):
                        m = self.static_lookup(type(obj), name)
                        if m is not None and self.is_interp_callable(m):
                            r = self.call(m, [obj, other], {})
                            if r is not NotImplemented:
                                return r
                raise Unsupported('ordering with symbolic non-int')
            from . import models_str as ms
            if isinstance(a, (SBytes, bytes, bytearray, ms.SStr, str)) and isinstance(b, (SBytes, bytes, bytearray, ms.SStr, str)):
                if isinstance(a, (ms.SStr, str)) != isinstance(b, (ms.SStr, str)):
                    raise TypeError('ordering between str and bytes')
                return self.seq_order(t, a, b)
            if is_sym(a) or is_sym(b):
                raise Unsupported('ordering of ' + type(a).__name__)
            for obj, other, name in ((a, b, {ast.Lt: '__lt__', ast.LtE: '__le__', ast.Gt: '__gt__', ast.GtE: '__ge__'}[t]),
                                     (b, a, {ast.Lt: '__gt__', ast.LtE: '__ge__', ast.Gt: '__lt__', ast.GtE: '__le__'}[t])):
                if self.is_interp_class(type(obj)):
                    m = self.static_lookup(type(obj), name)
                    if m is not None and self.is_interp_callable(m):
                        r = self.call(m, [obj, other], {})
                        if r is not NotImplemented:
                            return r
            if isinstance(a, tuple) and isinstance(b, tuple) and (deep_sym(a) or deep_sym(b)):
                for x, y in zip(a, b):
                    if not self.truth(self.eq(x, y)):
                        return self.compare(op, x, y)
                return CMP[t](len(a), len(b))
            return CMP[t](a, b)
        if t is ast.Is:
            return a is b
        if t is ast.IsNot:
            return a is not b
        if t in (ast.In, ast.NotIn):
            r = self.contains(b, a)
            return r if t is ast.In else s_not(r)
        raise Unsupported('compare op')

    def seq_order(self, t, a, b):
        """Lexicographic ordering of (symbolic) bytes / str without runs."""
        from . import models_str as ms
        aa = ms.str_atoms(a) if isinstance(a, (ms.SStr, str)) else atoms_of(a)
        bb = ms.str_atoms(b) if isinstance(b, (ms.SStr, str)) else atoms_of(b)
        if any(isinstance(x, Run) for x in aa) or any(isinstance(x, Run) for x in bb):
            raise Unsupported('ordering of bytes with runs')
        m = min(len(aa), len(bb))
        for i, (x, y) in enumerate(zip(aa, bb)):
            if isinstance(x, int) and isinstance(y, int):
                if x != y:
                    return CMP[t](x, y)
                continue
            zx, zy = ms.zt(x), ms.zt(y)
            if zx.sort == z3.BV or zy.sort == z3.BV:
                zx = z3.BV2Int(zx) if zx.sort == z3.BV else zx
                zy = z3.BV2Int(zy) if zy.sort == z3.BV else zy
            if i == m - 1 and len(aa) == len(bb):
                # last position decides alone: a value, not a fork
                return mk_bool({ast.Lt: zx < zy, ast.LtE: zx <= zy, ast.Gt: zx > zy, ast.GtE: zx >= zy}[t])
            if not self.truth(mk_bool(zx == zy)):
                return self.truth(mk_bool(zx < zy)) == (t in (ast.Lt, ast.LtE))
        return CMP[t](len(aa), len(bb))

    def contains(self, container, item):
        if isinstance(container, (dict,)):
            return self.dict_find(container, item) is not MISSING
        if isinstance(container, (SBytes, bytes, bytearray)) and isinstance(item, (SBytes, bytes, bytearray, int, SInt)):
            if isinstance(item, (int, SInt)):
                for x in atoms_of(container):
                    if self.truth(self.eq(SInt(x) if z3.is_expr(x) else x, item)):
                        return True
                return False
            raise Unsupported('subsequence test')
        if isinstance(container, (list, tuple, set, frozenset)) or hasattr(container, '__iter__'):
            if isinstance(container, (set, frozenset, str)) and not is_sym(item):
                return item in container
            for x in self.iterate(container):
                if self.truth(self.eq(x, item)):
                    return True
            return False
        if self.is_interp_class(type(container)):
            m = self.static_lookup(type(container), '__contains__')
            if m is not None:
                return self.call(m, [container, item], {})
        return item in container

    # ------------------------------------------------------------ dict with symbolic keys
    def dict_find(self, d, k):
        if not is_sym(k) and not any(isinstance(x, SKey) for x in d.keys()):
            try:
                return d[k] if k in d else MISSING
            except TypeError:
                raise
        hash(k) if not is_sym(k) else None  # unhashable concrete keys raise TypeError like python
        for k2 in list(d.keys()):
            kk = k2.v if isinstance(k2, SKey) else k2
            if self.truth(self.eq(kk, k)):
                return d[k2]
        return MISSING

    def dict_set(self, d, k, v):
        if not is_sym(k) and not any(isinstance(x, SKey) for x in d.keys()):
            d[k] = v
            return
        if not is_sym(k):
            hash(k)
        for k2 in list(d.keys()):
            kk = k2.v if isinstance(k2, SKey) else k2
            if self.truth(self.eq(kk, k)):
                d[k2] = v
                return
        d[SKey(k) if is_sym(k) else k] = v

    # ------------------------------------------------------------ function source
    def get_ast(self, fn):
        code = fn.__code__
        node = self.fcache.get(code)
        if node is None:
            src = textwrap.dedent(inspect.getsource(fn))
            tree = ast.parse(src)
            node = tree.body[0]
            if isinstance(node, ast.Expr):  # lambda assigned etc.
                raise Unsupported('source is an expression')
            self.fcache[code] = node
            self.funcs_seen[f'{fn.__module__}.{fn.__qualname__}'] = (
                getattr(fn.__code__, 'co_filename', '?'), hashlib.sha256(src.encode()).hexdigest()[:16])
        return node

    def is_interp_module(self, modname):
        return modname is not None and (modname.split('.')[0] in self.interp_prefixes)

    def is_interp_class(self, cls):
        return self.is_interp_module(getattr(cls, '__module__', None))

    def is_interp_callable(self, fn):
        if isinstance(fn, InterpFunction):
            return True
        if isinstance(fn, types.MethodType):
            fn = fn.__func__
        if isinstance(fn, (staticmethod, classmethod)):
            fn = fn.__func__
        return isinstance(fn, types.FunctionType) and self.is_interp_module(fn.__module__) and \
            fn.__code__.co_filename.endswith('.py')

    def static_lookup(self, cls, name):
        for k in cls.__mro__:
            if name in k.__dict__:
                return k.__dict__[name]
        return None

    # ------------------------------------------------------------ calls
    def call(self, fn, args, kwargs):
        # unwrap
        m = self.models.get(id(fn))
        if m is not None:
            return m(self, args, kwargs)
        if isinstance(fn, InterpFunction):
            return self.call_interp(fn.node, fn.frame.glob, fn.frame, fn.defaults, fn.kwdefaults, args, kwargs, None)
        if isinstance(fn, types.MethodType) and (isinstance(fn.__self__, VM) or
                                                 (type(fn.__self__).__module__ or '').startswith('symvm.') or
                                                 getattr(type(fn.__self__), '__symvm_native__', False)):
            return fn(*args, **kwargs)          # framework helpers (scheduler, ideal functions) run natively
        if isinstance(fn, types.MethodType):
            f = fn.__func__
            if self.is_interp_callable(f):
                return self.call(f, [fn.__self__] + list(args), kwargs)
            mm = self.method_model_for(fn.__self__, f.__name__)
            if mm is not None:
                return mm(self, fn.__self__, args, kwargs)
        if isinstance(fn, BoundModel):
            if type(fn.obj) in self.PLAIN and not deep_sym(args) and not deep_sym(kwargs) and fn.name is not None \
                    and not any(isinstance(a, SymText) or hasattr(a, '__next__') for a in args):
                return getattr(fn.obj, fn.name)(*args, **kwargs)     # nothing symbolic: the real method
            return fn.model(self, fn.obj, args, kwargs)
        if isinstance(fn, types.FunctionType):
            if hasattr(fn, '__wrapped__') and not self.is_interp_callable(fn):
                return self.call(fn.__wrapped__, args, kwargs)
            if self.is_interp_callable(fn):
                return self.call_real_function(fn, args, kwargs)
        if isinstance(fn, functools._lru_cache_wrapper):
            return self.call(fn.__wrapped__, args, kwargs)
        if isinstance(fn, type):
            return self.instantiate(fn, args, kwargs)
        if isinstance(fn, (types.BuiltinFunctionType, types.BuiltinMethodType, types.MethodDescriptorType,
                           types.WrapperDescriptorType, types.MethodWrapperType)):
            slf = getattr(fn, '__self__', None)
            if isinstance(slf, type):
                sm = self.static_models.get((slf, fn.__name__))
                if sm is not None:
                    return sm(self, args, kwargs)
            if slf is not None and not isinstance(slf, types.ModuleType):
                mm = self.method_model_for(slf, fn.__name__)
                if mm is not None:
                    return mm(self, slf, args, kwargs)
        if self.is_interp_class(type(fn)) and not isinstance(fn, type):
            c = self.static_lookup(type(fn), '__call__')
            if c is not None and self.is_interp_callable(c):
                return self.call(c, [fn] + list(args), kwargs)
        if self.noop_types and isinstance(getattr(fn, '__self__', None), self.noop_types):
            return NOOP
        if fn is NOOP or isinstance(fn, NoOp):
            return NOOP
        if isinstance(fn, (types.WrapperDescriptorType, types.MethodWrapperType)) and fn.__name__ == '__init__' and \
                issubclass(getattr(fn, '__objclass__', type(getattr(fn, '__self__', None))), BaseException):
            # exception messages built from symbolic values are opaque text
            args = [a if not (is_sym(a) or isinstance(a, SymText)) else '<sym>' for a in args]
            return fn(*args, **kwargs)
        if fn in TEXT_ONLY and (any(isinstance(a, SymText) for a in args) or deep_sym(args)):
            return SymText(list(args))
        if not deep_sym(args) and not deep_sym(kwargs):
            try:
                real_world = fn in REAL_WORLD
            except TypeError:
                real_world = False
            if real_world:
                # never let the code under analysis touch the real file system / processes: a harness must model these
                raise Unsupported(f'call of {getattr(fn, "__qualname__", repr(fn))} (acts on the real system; no model registered)')
            return fn(*args, **kwargs)
        raise Unsupported(f'call of {getattr(fn, "__qualname__", repr(fn))} with symbolic args')

    def method_model_for(self, obj, name):
        for k in type(obj).__mro__:
            mm = self.method_models.get((k, name))
            if mm is not None:
                return mm
        return None

    def call_real_function(self, fn, args, kwargs):
        node = self.get_ast(fn)
        closure = None
        if fn.__closure__:
            closure = Frame({n: Cell(c) for n, c in zip(fn.__code__.co_freevars, fn.__closure__)}, fn.__globals__)
        cls = None
        return self.call_interp(node, fn.__globals__, closure, fn.__defaults__ or (), fn.__kwdefaults__ or {},
                                args, kwargs, fn)

    def bind_args(self, a, defaults, kwdefaults, args, kwargs):
        env = {}
        pos = [x.arg for x in a.posonlyargs + a.args]
        args = list(args)
        if len(args) > len(pos) and not a.vararg:
            raise TypeError(f'takes {len(pos)} positional arguments but {len(args)} were given')
        for name, v in zip(pos, args):
            env[name] = v
        if a.vararg:
            env[a.vararg.arg] = tuple(args[len(pos):])
        kwargs = dict(kwargs)
        for i, name in enumerate(pos):
            if name in env:
                if name in kwargs:
                    raise TypeError(f"got multiple values for argument '{name}'")
                continue
            if name in kwargs:
                env[name] = kwargs.pop(name)
            else:
                di = i - (len(pos) - len(defaults))
                if di >= 0:
                    env[name] = defaults[di]
                else:
                    raise TypeError(f"missing required positional argument: '{name}'")
        for x in a.kwonlyargs:
            if x.arg in kwargs:
                env[x.arg] = kwargs.pop(x.arg)
            elif x.arg in kwdefaults:
                env[x.arg] = kwdefaults[x.arg]
            else:
                raise TypeError(f"missing required keyword-only argument: '{x.arg}'")
        if a.kwarg:
            env[a.kwarg.arg] = kwargs
        elif kwargs:
            raise TypeError(f"got an unexpected keyword argument '{next(iter(kwargs))}'")
        return env

    def call_interp(self, node, glob, parent, defaults, kwdefaults, args, kwargs, realfn):
        env = self.bind_args(node.args, defaults, kwdefaults, args, kwargs)
        f = Frame(env, glob, parent)
        self.depth += 1
        if self.depth > self.max_depth:
            self.depth -= 1
            raise BoundExceeded('recursion depth bound %d' % self.max_depth)
        try:
            return self._call_interp(node, f, env, args, realfn)
        finally:
            self.depth -= 1

    max_depth = 60

    def local_names(self, node):
        """Names that are local to a function body (bound somewhere in it): reading one before it is bound is an
        UnboundLocalError, not a lookup in the enclosing scopes."""
        cached = getattr(node, '_local_names', None)
        if cached is not None:
            return cached
        bound, declared = set(), set()
        stack = list(node.body) if isinstance(node.body, list) else []
        while stack:
            n = stack.pop()
            if isinstance(n, (ast.FunctionDef, ast.AsyncFunctionDef, ast.ClassDef)):
                bound.add(n.name)
                continue
            if isinstance(n, (ast.Lambda, ast.ListComp, ast.SetComp, ast.DictComp, ast.GeneratorExp)):
                continue
            if isinstance(n, ast.Name) and isinstance(n.ctx, (ast.Store, ast.Del)):
                bound.add(n.id)
            elif isinstance(n, (ast.Global, ast.Nonlocal)):
                declared.update(n.names)
            elif isinstance(n, ast.ExceptHandler) and n.name:
                bound.add(n.name)
            elif isinstance(n, (ast.Import, ast.ImportFrom)):
                for al in n.names:
                    bound.add((al.asname or al.name).split('.')[0])
            stack.extend(ast.iter_child_nodes(n))
        node._local_names = frozenset(bound - declared)
        return node._local_names

    def _call_interp(self, node, f, env, args, realfn):
        if isinstance(node, ast.AsyncFunctionDef) and realfn is not None and '$lazy_started' not in env \
                and getattr(realfn, '__qualname__', None) in self.lazy_async:
            # a coroutine the code under analysis hands to a task: its body runs when it is awaited (by the scheduler's task), not at the call
            return LazyCoro(self, node, f, env, args, realfn)
        if not isinstance(node, ast.Lambda):
            env['$locals'] = self.local_names(node)
        if realfn is not None and '.' in realfn.__qualname__ and args:
            cls = defining_class(realfn)
            if cls is not None:
                env['$class'] = cls
                env['$first'] = args[0]
        if isinstance(node, ast.Lambda):
            return self.ev(node.body, f)
        is_gen = getattr(node, '_is_gen', None)
        if is_gen is None:
            is_gen = node._is_gen = any(isinstance(n, (ast.Yield, ast.YieldFrom)) for n in walk_no_nested(node))
        if is_gen:
            f.env['$yields'] = []
        try:
            self.exec_block(node.body, f)
            r = None
        except ReturnEx as r_:
            r = r_.v
        if is_gen:
            return iter(f.env['$yields'])  # eager generator (see DESIGN)
        if isinstance(node, ast.AsyncFunctionDef):
            return Done(r)
        return r

    def instantiate(self, cls, args, kwargs):
        tm = self.type_models.get(cls)
        if tm is not None:
            return tm(self, args, kwargs)
        if cls in REAL_WORLD:
            raise Unsupported(f'call of {cls.__qualname__} (acts on the real system; no model registered)')
        if issubclass(cls, BaseException):
            init = self.static_lookup(cls, '__init__')
            if self.is_interp_callable(init):
                obj = cls.__new__(cls)
                self.call(init, [obj] + list(args), kwargs)
                return obj
            return cls(*[a if not is_sym(a) else '<sym>' for a in args])
        if self.is_interp_class(cls):
            if dataclasses.is_dataclass(cls):
                obj = object.__new__(cls)
                flds = [f for f in dataclasses.fields(cls) if f.init]
                vals = dict(zip([f.name for f in flds], args))
                vals.update(kwargs)
                for f in flds:
                    if f.name in vals:
                        v = vals[f.name]
                    elif f.default is not dataclasses.MISSING:
                        v = f.default
                    elif f.default_factory is not dataclasses.MISSING:
                        v = f.default_factory()
                    else:
                        raise TypeError('missing dataclass field ' + f.name)
                    object.__setattr__(obj, f.name, v)
                pi = self.static_lookup(cls, '__post_init__')
                if pi is not None:
                    self.call(pi, [obj], {})
                return obj
            new = self.static_lookup(cls, '__new__')
            if new is not None and new is not object.__new__ and not isinstance(new, staticmethod):
                obj = cls.__new__(cls, *args, **kwargs)
            elif isinstance(new, staticmethod):
                nf = new.__func__
                if self.is_interp_callable(nf):
                    obj = self.call(nf, [cls] + list(args), kwargs)
                else:
                    obj = nf(cls, *args, **kwargs)   # namedtuple __new__: structure only
            else:
                obj = object.__new__(cls)
            init = self.static_lookup(cls, '__init__')
            if init is not None and self.is_interp_callable(init):
                self.call(init, [obj] + list(args), kwargs)
            elif init is not None and init is not object.__init__ and not isinstance(obj, tuple):
                raise Unsupported(f'native __init__ of {cls.__name__}')
            return obj
        if cls in (list, tuple):
            return cls(self.iterate(args[0])) if args else cls()
        if cls is dict:
            if not args:
                return dict(**kwargs)
            d = {}
            src = args[0]
            for k, v in (src.items() if isinstance(src, dict) else self.iterate(src)):
                self.dict_set(d, k.v if isinstance(k, SKey) else k, v)
            return d
        mm = self.models.get(id(cls))
        if mm is not None:
            return mm(self, args, kwargs)
        if not deep_sym(args) and not deep_sym(kwargs):
            return cls(*args, **kwargs)
        raise Unsupported(f'construct {cls.__name__} with symbolic args')

    # ------------------------------------------------------------ attributes
    def getattr(self, o, name):
        if isinstance(o, SuperProxy):
            t = o.obj if isinstance(o.obj, type) else type(o.obj)
            mro = t.__mro__
            for k in mro[mro.index(o.cls) + 1:]:
                if name in k.__dict__:
                    d = k.__dict__[name]
                    if isinstance(d, types.FunctionType):
                        return types.MethodType(d, o.obj)
                    if isinstance(d, classmethod):
                        return types.MethodType(d.__func__, t)
                    if isinstance(d, staticmethod):
                        return d.__func__
                    if isinstance(d, property):
                        return self.call(d.fget, [o.obj], {})
                    return getattr(super(o.cls, o.obj), name)
            raise AttributeError(name)
        if isinstance(o, Sym):
            mm = self.method_models.get((type(o), name))
            if mm is not None:
                return BoundModel(mm, o)
            raise AttributeError(f"'{sym_pyname(o)}' object has no attribute '{name}'")
        if isinstance(o, NoOp) or (self.noop_types and isinstance(o, self.noop_types)):
            return NOOP
        t = o if isinstance(o, type) else type(o)
        if self.is_interp_class(t):
            d = self.static_lookup(t, name)
            if isinstance(d, property):
                if isinstance(o, type):
                    return d
                if self.is_interp_callable(d.fget):
                    return self.call(d.fget, [o], {})
            elif d is not None and not isinstance(d, (types.FunctionType, classmethod, staticmethod, types.MemberDescriptorType)) \
                    and self.is_interp_class(type(d)) and hasattr(type(d), '__get__') and not isinstance(o, type):
                # user descriptor (e.g. cachedproperty); instance dict wins for non-data descriptors
                if not hasattr(type(d), '__set__') and name in getattr(o, '__dict__', {}):
                    return o.__dict__[name]
                return self.call(self.static_lookup(type(d), '__get__'), [d, o, t], {})
        mm = self.method_model_for(o, name) if not isinstance(o, type) else None
        if mm is not None:
            return BoundModel(mm, o, name)
        return getattr(o, name)

    PLAIN = (str, bytes, bytearray, int)

    def setattr(self, o, name, v):
        t = type(o)
        if self.is_interp_class(t):
            d = self.static_lookup(t, name)
            if isinstance(d, property) and d.fset is not None and self.is_interp_callable(d.fset):
                return self.call(d.fset, [o, v], {})
        object.__setattr__(o, name, v) if dataclasses.is_dataclass(t) else setattr(o, name, v)

    # ------------------------------------------------------------ iteration
    def iterate(self, o):
        from . import models_str as ms
        if isinstance(o, ms.SStr):
            return [ms.mk_str([x]) for x in o.a]
        if isinstance(o, SBytes):
            if o.has_runs():
                raise Unsupported('iterate bytes with runs')
            return [SInt(x) if z3.is_expr(x) else x for x in o.a]
        if isinstance(o, Sym):
            raise Unsupported('iterate ' + type(o).__name__)
        if isinstance(o, dict):
            return [k.v if isinstance(k, SKey) else k for k in o.keys()]
        if self.is_interp_class(type(o)) and not isinstance(o, (tuple, list, dict)):
            it = self.static_lookup(type(o), '__iter__')
            if it is not None and self.is_interp_callable(it):
                return self.call(it, [o], {})
            gi = self.static_lookup(type(o), '__getitem__')
            if gi is not None and self.is_interp_callable(gi):
                out = []
                i = 0
                while True:
                    try:
                        out.append(self.call(gi, [o, i], {}))
                    except IndexError:
                        break
                    i += 1
                    if i > self.loop_bound:
                        raise BoundExceeded('getitem iteration')
                return out
        return o

    # ------------------------------------------------------------ statements
    def exec_block(self, body, f):
        for st in body:
            self.loc = st
            getattr(self, 'x_' + type(st).__name__, self.x_unsupported)(st, f)

    def x_unsupported(self, st, f):
        raise Unsupported('stmt ' + type(st).__name__)

    def x_Expr(self, st, f):
        self.ev(st.value, f)

    def x_Return(self, st, f):
        raise ReturnEx(self.ev(st.value, f) if st.value is not None else None)

    def x_Pass(self, st, f):
        pass

    def x_Global(self, st, f):
        f.globals_decl.update(st.names)

    def x_Nonlocal(self, st, f):
        f.nonlocals.update(st.names)

    def x_Import(self, st, f):
        for a in st.names:
            mod = __import__(a.name)
            f.env[a.asname or a.name.split('.')[0]] = mod

    def x_ImportFrom(self, st, f):
        import importlib
        mod = importlib.import_module(st.module)
        for a in st.names:
            f.env[a.asname or a.name] = getattr(mod, a.name)

    def x_Assign(self, st, f):
        v = self.ev(st.value, f)
        for t in st.targets:
            self.assign(t, v, f)

    def x_AnnAssign(self, st, f):
        if st.value is not None:
            self.assign(st.target, self.ev(st.value, f), f)

    def x_AugAssign(self, st, f):
        t = st.target
        if isinstance(t, ast.Name):
            cur = self.load_name(t.id, f)
            self.store_name(t.id, self.binop(st.op, cur, self.ev(st.value, f), inplace=True), f)
        elif isinstance(t, ast.Attribute):
            o = self.ev(t.value, f)
            cur = self.getattr(o, t.attr)
            self.setattr(o, t.attr, self.binop(st.op, cur, self.ev(st.value, f), inplace=True))
        elif isinstance(t, ast.Subscript):
            o = self.ev(t.value, f)
            k = self.ev(t.slice, f)
            cur = self.getitem(o, k)
            self.setitem(o, k, self.binop(st.op, cur, self.ev(st.value, f), inplace=True))
        else:
            raise Unsupported('augassign target')

    def assign(self, t, v, f):
        if isinstance(t, ast.Name):
            self.store_name(t.id, v, f)
        elif isinstance(t, (ast.Tuple, ast.List)):
            vs = list(self.iterate(v))
            star = [i for i, e in enumerate(t.elts) if isinstance(e, ast.Starred)]
            if star:
                i = star[0]
                after = len(t.elts) - i - 1
                for tt, vv in zip(t.elts[:i], vs[:i]):
                    self.assign(tt, vv, f)
                self.assign(t.elts[i].value, vs[i:len(vs) - after], f)
                for tt, vv in zip(t.elts[i + 1:], vs[len(vs) - after:]):
                    self.assign(tt, vv, f)
            else:
                if len(vs) != len(t.elts):
                    raise ValueError(f'not enough/too many values to unpack (expected {len(t.elts)}, got {len(vs)})')
                for tt, vv in zip(t.elts, vs):
                    self.assign(tt, vv, f)
        elif isinstance(t, ast.Subscript):
            self.setitem(self.ev(t.value, f), self.ev_slice(t.slice, f), v)
        elif isinstance(t, ast.Attribute):
            self.setattr(self.ev(t.value, f), t.attr, v)
        else:
            raise Unsupported('assign target ' + type(t).__name__)

    def x_Delete(self, st, f):
        for t in st.targets:
            if isinstance(t, ast.Subscript):
                o = self.ev(t.value, f)
                k = self.ev_slice(t.slice, f)
                if isinstance(o, dict):
                    if is_sym(k) or any(isinstance(x, SKey) for x in o):
                        for k2 in list(o.keys()):
                            if self.truth(self.eq(k2.v if isinstance(k2, SKey) else k2, k)):
                                del o[k2]
                                break
                        else:
                            raise KeyError(k)
                    else:
                        del o[k]
                else:
                    del o[k]
            elif isinstance(t, ast.Name):
                del f.env[t.id]
            elif isinstance(t, ast.Attribute):
                delattr(self.ev(t.value, f), t.attr)
            else:
                raise Unsupported('del target')

    def x_If(self, st, f):
        if self.truth(self.ev(st.test, f)):
            self.exec_block(st.body, f)
        else:
            self.exec_block(st.orelse, f)

    def x_While(self, st, f):
        n = 0
        while self.truth(self.ev(st.test, f)):
            n += 1
            if n > self.loop_bound:
                raise BoundExceeded('while loop')
            try:
                self.exec_block(st.body, f)
            except BreakEx:
                return
            except ContinueEx:
                continue
        self.exec_block(st.orelse, f)

    def x_For(self, st, f):
        for v in self.iterate(self.ev(st.iter, f)):
            self.assign(st.target, v, f)
            try:
                self.exec_block(st.body, f)
            except BreakEx:
                return
            except ContinueEx:
                continue
        self.exec_block(st.orelse, f)

    x_AsyncFor = x_For

    def x_Break(self, st, f):
        raise BreakEx()

    def x_Continue(self, st, f):
        raise ContinueEx()

    def x_Raise(self, st, f):
        if st.exc is None:
            raise f.env['$exc']
        e = self.ev(st.exc, f)
        if isinstance(e, type):
            e = self.instantiate(e, [], {})
        raise e

    def x_Assert(self, st, f):
        if not self.truth(self.ev(st.test, f)):
            msg = self.ev(st.msg, f) if st.msg is not None else None
            raise AssertionError(msg if not deep_sym(msg) else '<sym>')

    def x_Try(self, st, f):
        try:
            try:
                self.exec_block(st.body, f)
            except BaseException as e:
                if isinstance(e, VM_SIGNALS):
                    raise
                for h in st.handlers:
                    typ = self.ev(h.type, f) if h.type is not None else BaseException
                    if isinstance(e, typ):
                        if h.name:
                            f.env[h.name] = e
                        old = f.env.get('$exc')
                        f.env['$exc'] = e
                        try:
                            self.exec_block(h.body, f)
                        finally:
                            f.env['$exc'] = old
                        break
                else:
                    raise
            else:
                self.exec_block(st.orelse, f)
        except BaseException as e:
            if isinstance(e, (Unsupported, BoundExceeded, Infeasible)):
                raise
            self.exec_block(st.finalbody, f)
            raise
        else:
            self.exec_block(st.finalbody, f)

    def x_With(self, st, f):
        if len(st.items) != 1:
            raise Unsupported('multi with')
        item = st.items[0]
        cm = self.ev(item.context_expr, f)
        enter = self.getattr(cm, '__aenter__' if isinstance(st, ast.AsyncWith) else '__enter__')
        exit_ = self.getattr(cm, '__aexit__' if isinstance(st, ast.AsyncWith) else '__exit__')
        v = self.await_(self.call(enter, [], {})) if isinstance(st, ast.AsyncWith) else self.call(enter, [], {})
        if item.optional_vars is not None:
            self.assign(item.optional_vars, v, f)
        try:
            self.exec_block(st.body, f)
        except (Unsupported, BoundExceeded, Infeasible):
            raise
        except (ReturnEx, BreakEx, ContinueEx):
            r = self.call(exit_, [None, None, None], {})
            if isinstance(st, ast.AsyncWith):
                self.await_(r)
            raise
        except BaseException as e:
            r = self.call(exit_, [type(e), e, None], {})
            if isinstance(st, ast.AsyncWith):
                r = self.await_(r)
            if not self.truth(r):
                raise
        else:
            r = self.call(exit_, [None, None, None], {})
            if isinstance(st, ast.AsyncWith):
                self.await_(r)

    x_AsyncWith = x_With

    def x_FunctionDef(self, st, f):
        fn = self.make_function(st, f, st.name)
        for d in reversed(st.decorator_list):
            fn = self.call(self.ev(d, f), [fn], {})
        self.store_name(st.name, fn, f)

    x_AsyncFunctionDef = x_FunctionDef

    def make_function(self, node, f, name):
        a = node.args
        defaults = tuple(self.ev(d, f) for d in a.defaults)
        kwdefaults = {x.arg: self.ev(d, f) for x, d in zip(a.kwonlyargs, a.kw_defaults) if d is not None}
        return InterpFunction(self, node, f, defaults, kwdefaults, name)

    # ------------------------------------------------------------ names
    def load_name(self, name, f):
        fr = f
        while fr is not None:
            if name in fr.env:
                v = fr.env[name]
                return v.cell.cell_contents if isinstance(v, Cell) else v
            if fr is f and name in fr.env.get('$locals', ()):
                raise UnboundLocalError(f"cannot access local variable '{name}' where it is not associated with a value")
            fr = fr.parent
        g = f.glob
        if name in g:
            return g[name]
        try:
            return getattr(builtins, name)
        except AttributeError:
            raise NameError(name)

    def store_name(self, name, v, f):
        if name in f.nonlocals:
            fr = f.parent
            while fr is not None:
                if name in fr.env:
                    if isinstance(fr.env[name], Cell):
                        fr.env[name].cell.cell_contents = v
                    else:
                        fr.env[name] = v
                    return
                fr = fr.parent
            raise Unsupported('nonlocal not found')
        if name in f.globals_decl:
            f.glob[name] = v
            return
        f.env[name] = v

    # ------------------------------------------------------------ expressions
    def ev(self, e, f):
        return getattr(self, 'e_' + type(e).__name__, self.e_unsupported)(e, f)

    def e_unsupported(self, e, f):
        raise Unsupported('expr ' + type(e).__name__)

    def e_Constant(self, e, f):
        return e.value

    def e_Name(self, e, f):
        return self.load_name(e.id, f)

    def e_Tuple(self, e, f):
        return tuple(self.ev_seq(e.elts, f))

    def e_List(self, e, f):
        return self.ev_seq(e.elts, f)

    def e_Set(self, e, f):
        vs = self.ev_seq(e.elts, f)
        if deep_sym(vs):
            raise Unsupported('set with symbolic members')
        return set(vs)

    def ev_seq(self, elts, f):
        out = []
        for x in elts:
            if isinstance(x, ast.Starred):
                out.extend(self.iterate(self.ev(x.value, f)))
            else:
                out.append(self.ev(x, f))
        return out

    def e_Dict(self, e, f):
        d = {}
        for k, v in zip(e.keys, e.values):
            if k is None:
                for kk, vv in self.ev(v, f).items():
                    self.dict_set(d, kk, vv)
            else:
                self.dict_set(d, self.ev(k, f), self.ev(v, f))
        return d

    def e_Attribute(self, e, f):
        return self.getattr(self.ev(e.value, f), e.attr)

    def e_Lambda(self, e, f):
        return self.make_function(e, f, '<lambda>')

    def e_IfExp(self, e, f):
        return self.ev(e.body, f) if self.truth(self.ev(e.test, f)) else self.ev(e.orelse, f)

    def e_NamedExpr(self, e, f):
        v = self.ev(e.value, f)
        self.store_name(e.target.id, v, f)
        return v

    def e_Await(self, e, f):
        return self.await_(self.ev(e.value, f))

    def await_(self, v):
        if isinstance(v, Done):
            return v.v
        aw = getattr(v, '__vm_await__', None)
        if aw is not None:
            return aw(self)
        raise Unsupported('await of ' + type(v).__name__)

    def e_Yield(self, e, f):
        fr = f
        while '$yields' not in fr.env:
            fr = fr.parent
        fr.env['$yields'].append(self.ev(e.value, f) if e.value is not None else None)
        if len(fr.env['$yields']) > self.loop_bound:
            raise BoundExceeded('generator yields')
        return None

    def e_YieldFrom(self, e, f):
        fr = f
        while '$yields' not in fr.env:
            fr = fr.parent
        fr.env['$yields'].extend(self.iterate(self.ev(e.value, f)))

    def e_JoinedStr(self, e, f):
        parts = []
        for v in e.values:
            if isinstance(v, ast.Constant):
                parts.append(v.value)
            else:
                val = self.ev(v.value, f)
                spec = self.ev(v.format_spec, f) if v.format_spec is not None else ''
                parts.append(self.format_value(val, v.conversion, spec))
        if any(not isinstance(p, str) for p in parts):
            from . import models_str as ms
            if all(isinstance(p, (str, ms.SStr)) for p in parts):
                out = []
                for p in parts:
                    out.extend(ms.str_atoms(p))
                return ms.mk_str(out)
            return SymText(parts)
        return ''.join(parts)

    def format_value(self, val, conv, spec):
        from . import models_str as ms
        if isinstance(val, ms.SStr) and not spec and conv in (-1, ord('s')):
            return val
        if isinstance(val, (SInt, SBool)) and conv == -1:
            import re as _re
            m = _re.fullmatch(r'(0?)(\d*)d?', spec or '')
            if m is None:
                raise Unsupported('format spec %r on a symbolic int' % spec)
            from . import models
            if isinstance(val, SBool):
                val = SInt(z3.If(val.e, 1, 0))
            atoms = models.decimal_atoms(self, val)
            width = int(m.group(2) or 0)
            if len(atoms) < width:
                pad = 48 if m.group(1) else 32
                if atoms and isinstance(atoms[0], int) and atoms[0] == 45 and m.group(1):
                    atoms = [45] + [pad] * (width - len(atoms)) + atoms[1:]
                else:
                    atoms = [pad] * (width - len(atoms)) + atoms
            return ms.mk_str(atoms)
        if deep_sym(val) and self.is_interp_class(type(val)) and not isinstance(val, Sym):
            m = self.static_lookup(type(val), '__str__')
            if m is not None and self.is_interp_callable(m):
                return self.call(m, [val], {})
        if deep_sym(val):
            return SymText([val])   # opaque text (used only in messages)
        if isinstance(val, (NoOp,)):
            return '<noop>'
        if self.is_interp_class(type(val)):
            m = self.static_lookup(type(val), '__str__' if conv != ord('r') else '__repr__')
            if m is not None and self.is_interp_callable(m):
                return self.call(m, [val], {})
        if conv == ord('r'):
            val = repr(val)
        elif conv == ord('s'):
            val = str(val)
        return format(val, spec)

    def e_BinOp(self, e, f):
        return self.binop(e.op, self.ev(e.left, f), self.ev(e.right, f))

    def binop(self, op, a, b, inplace=False):
        t = type(op)
        if isinstance(a, SymText) or isinstance(b, SymText):
            return SymText([a, b])
        from . import models_str as ms
        if t is ast.Mult and (isinstance(a, SInt) or isinstance(b, SInt)):
            seq, cnt = (a, b) if isinstance(b, SInt) else (b, a)
            if isinstance(seq, (str, bytes, bytearray, list, tuple, ms.SStr, SBytes)):
                # sequence repeated a symbolic number of times: one path per feasible count
                lo, hi = z3.bounds(cnt.e)
                if lo is None or hi is None or hi - max(lo, 0) > 64:
                    raise Unsupported('sequence repeated an unbounded symbolic number of times')
                k = self.choose_int(cnt, lo, hi)
                if isinstance(seq, ms.SStr):
                    return ms.mk_str(ms.str_atoms(seq) * max(k, 0))
                if isinstance(seq, SBytes):
                    return mk_bytes(atoms_of(seq) * max(k, 0))
                return seq * k
        if isinstance(a, ms.SStr) or isinstance(b, ms.SStr):
            if t is ast.Mult and isinstance(b, int) and not isinstance(b, bool):
                return ms.mk_str(ms.str_atoms(a) * max(b, 0))
            if t is ast.Add and isinstance(a, (ms.SStr, str)) and isinstance(b, (ms.SStr, str)):
                return ms.mk_str(ms.str_atoms(a) + ms.str_atoms(b))
            raise Unsupported('str binop ' + t.__name__)
        if t in (ast.Add, ast.Sub) and ((isinstance(a, SInt) and isinstance(b, float)) or (isinstance(b, SInt) and isinstance(a, float))):
            # int +/- a float constant with an integral value, all magnitudes below 2**53: the float result is exact and compares like the
            # integer (the symbolic side must be bounded accordingly)
            fl, sy = (b, a) if isinstance(b, float) else (a, b)
            lo, hi = z3.bounds(sy.e)
            if fl == int(fl) and abs(fl) < 2 ** 52 and lo is not None and hi is not None and -2 ** 52 < lo and hi < 2 ** 52:
                if isinstance(b, float):
                    b = int(b)
                else:
                    a = int(a)
        if t is ast.Div and isinstance(a, (SInt, ms.SDyadic)):
            r = ms.dyadic_div(self, a, b)
            if r is not None:
                return r
        if t is ast.Div and (isinstance(a, SInt) or isinstance(b, SInt)):
            return ms.int_truediv(self, a, b)
        if not is_sym(a) and not is_sym(b):
            if deep_sym(a) or deep_sym(b):
                if t is ast.Add and isinstance(a, (list, tuple)) and type(a) is type(b):
                    if inplace and isinstance(a, list):
                        a.extend(b)
                        return a
                    return a + b
                if t is ast.Mod and isinstance(a, (bytes, str)):
                    return self.call(self.models_by_name['%format'], [a, b], {})
                if t is ast.Mult and isinstance(a, list) and isinstance(b, int):
                    return a * b
                raise Unsupported(f'binop {t.__name__} on containers with symbolic members')
            for obj, other, names in ((a, b, DUNDER.get(t, ())),):
                if self.is_interp_class(type(a)) and names:
                    m = self.static_lookup(type(a), names[0])
                    if m is not None and self.is_interp_callable(m):
                        r = self.call(m, [a, b], {})
                        if r is not NotImplemented:
                            return r
                if self.is_interp_class(type(b)) and names:
                    m = self.static_lookup(type(b), names[1])
                    if m is not None and self.is_interp_callable(m):
                        r = self.call(m, [b, a], {})
                        if r is not NotImplemented:
                            return r
            if inplace and t is ast.Add and isinstance(a, (list, bytearray)):
                a += b
                return a
            return BIN[t](a, b)
        if isinstance(a, (SBytes, bytes, bytearray)) or isinstance(b, (SBytes, bytes, bytearray)):
            if t is ast.Add and isinstance(a, (SBytes, bytes, bytearray)) and isinstance(b, (SBytes, bytes, bytearray)):
                mut = isinstance(a, bytearray) or (isinstance(a, SBytes) and a.mutable)
                if inplace and isinstance(a, SBytes) and a.mutable:
                    a.a.extend(atoms_of(b))
                    return a
                return mk_bytes(atoms_of(a) + atoms_of(b), mut)
            if t is ast.Mult and isinstance(b, int):
                return mk_bytes(atoms_of(a) * b)
            if t is ast.Mod:
                return self.call(self.models_by_name['%format'], [a, b], {})
            raise Unsupported('bytes binop ' + t.__name__)
        if isinstance(a, (str, bytes)) and t is ast.Mod:
            return self.call(self.models_by_name['%format'], [a, b], {})
        if isinstance(a, (SInt, int, SBool, bool)) and isinstance(b, (SInt, int, SBool, bool)):
            return self.int_binop(t, a, b)
        if self.is_interp_class(type(a)) or self.is_interp_class(type(b)):
            names = DUNDER.get(t, ())
            if self.is_interp_class(type(a)):
                m = self.static_lookup(type(a), names[0])
                if m is not None:
                    r = self.call(m, [a, b], {})
                    if r is not NotImplemented:
                        return r
            if self.is_interp_class(type(b)):
                m = self.static_lookup(type(b), names[1])
                if m is not None:
                    r = self.call(m, [b, a], {})
                    if r is not NotImplemented:
                        return r
        raise Unsupported(f'binop {t.__name__} {type(a).__name__} {type(b).__name__}')

    def int_binop(self, t, a, b):
        if isinstance(a, SBool):
            a = SInt(z3.If(a.e, 1, 0))
        if isinstance(b, SBool):
            b = SInt(z3.If(b.e, 1, 0))
        x, y = zint(a), zint(b)
        if t is ast.Add:
            return mk_int(x + y)
        if t is ast.Sub:
            return mk_int(x - y)
        if t is ast.Mult:
            if is_sym(a) and is_sym(b):
                # case-split the factor with the smaller known range (<= 256 values): the product stays linear
                best = None
                for v in (a, b):
                    lo, hi = self.path_bounds(zint(v))
                    if lo is not None and hi is not None and hi - lo <= 256 and (best is None or hi - lo < best[1]):
                        best = (v, hi - lo, lo, hi)
                if best is None:
                    raise Unsupported('symbolic * symbolic')
                c = self.choose_int(best[0], best[2], best[3])
                other = b if best[0] is a else a
                return mk_int(zint(other) * c)
            return mk_int(x * y)
        if t in (ast.FloorDiv, ast.Mod):
            if is_sym(b):
                raise Unsupported('division by symbolic')
            if b == 0:
                raise ZeroDivisionError('integer division or modulo by zero')
            if b < 0:
                raise Unsupported('negative divisor')
            if is_sym(a) and (b >= 256 or self._is_wide(a)):
                from . import models
                q, r = models.int_divmod(self, a, b)       # fresh quotient/remainder + one linear equation
                return q if t is ast.FloorDiv else r
            return mk_int(x / y) if t is ast.FloorDiv else mk_int(x % y)
        if t is ast.LShift:
            if is_sym(b):
                raise Unsupported('shift by symbolic')
            return mk_int(x * (1 << b))
        if t is ast.RShift:
            if is_sym(b):
                raise Unsupported('shift by symbolic')
            if b >= 8 and is_sym(a):
                from . import models
                return models.int_divmod(self, a, 1 << b)[0]
            return mk_int(x / (1 << b))
        if t is ast.BitAnd:
            c, s = (b, a) if is_sym(a) and not is_sym(b) else (a, b) if not is_sym(a) else (None, None)
            if c is not None and c >= 0 and isinstance(s, SInt) and s.bv and c < (1 << s.bv[1]):
                return self.bv_binop(t, a, b)          # stays in the bit-vector domain (ids)
            if c is not None and c >= 0:
                if c & (c + 1) == 0:  # low mask 2^k-1
                    if c >= 255 and isinstance(s, SInt):
                        lo_, hi_ = self.path_bounds(s.e)
                        if lo_ is not None and hi_ is not None and 0 <= lo_ and hi_ <= c:
                            return s
                        from . import models
                        return models.int_divmod(self, s, c + 1)[1]
                    return mk_int(zint(s) % (c + 1))
                # general non-negative mask: sum of bit runs
                res = 0
                k = 0
                while (1 << k) <= c:
                    if c >> k & 1:
                        j = k
                        while c >> j & 1:
                            j += 1
                        from . import models
                        part = models.int_divmod(self, s, 1 << k)[0] if k else s
                        part = models.int_divmod(self, part, 1 << (j - k))[1] if is_sym(part) else part % (1 << (j - k))
                        res = res + zint(part) * (1 << k)
                        k = j
                    else:
                        k += 1
                return mk_int(res)
            if c is not None and c < 0 and (~c) & ((~c) + 1) == 0:  # ~(2^k-1)
                m = (~c) + 1
                from . import models
                q = models.int_divmod(self, s, m)[0]
                return mk_int(zint(q) * m)
            return self.bv_binop(t, a, b)
        if t in (ast.BitOr, ast.BitXor):
            for c, sy in ((a, b), (b, a)):
                if not is_sym(c) and isinstance(sy, SInt) and not sy.bv and c >= 0:
                    lo_, hi_ = self.path_bounds(sy.e)
                    if lo_ is not None and hi_ is not None and lo_ >= 0 and (c == 0 or hi_ < (c & -c)):
                        return mk_int(sy.e + c)        # disjoint bit ranges: or/xor is addition
            return self.bv_binop(t, a, b)
        if t is ast.Pow:
            if is_sym(b) or is_sym(a):
                raise Unsupported('symbolic pow')
        if t is ast.Div:
            raise Unsupported('true division on symbolic ints (float model not in prototype)')
        raise Unsupported('int binop ' + t.__name__)

    bv_width = 64

    def bv_binop(self, t, a, b):
        w = self.bv_width
        if isinstance(a, SInt) and a.bv and isinstance(b, SInt) and b.bv:
            w = max(a.bv[1], b.bv[1])
        def bvof(x):
            if isinstance(x, SInt) and x.bv:
                return z3.ZeroExt(w - x.bv[1], x.bv[0])
            if isinstance(x, int):
                return z3.BitVecVal(x, w)
            return z3.Int2BV(zint(x), w)
        ba, bb = bvof(a), bvof(b)
        r = {ast.BitAnd: ba & bb, ast.BitOr: ba | bb, ast.BitXor: ba ^ bb}[t]
        return SInt(z3.BV2Int(r, False), (r, w))

    def e_UnaryOp(self, e, f):
        v = self.ev(e.operand, f)
        t = type(e.op)
        if t is ast.Not:
            if isinstance(v, SBool):
                return s_not(v)
            return not self.truth(v)
        if t is ast.USub:
            return mk_int(-v.e) if isinstance(v, SInt) else -v
        if t is ast.UAdd:
            return v
        if t is ast.Invert:
            return mk_int(-v.e - 1) if isinstance(v, SInt) else ~v
        raise Unsupported('unary')

    def e_BoolOp(self, e, f):
        is_and = isinstance(e.op, ast.And)
        v = None
        for x in e.values:
            v = self.ev(x, f)
            if self.truth(v) != is_and:
                return v
        return v

    def e_Compare(self, e, f):
        left = self.ev(e.left, f)
        if len(e.ops) == 1:
            return self.compare(e.ops[0], left, self.ev(e.comparators[0], f))
        for op, r in zip(e.ops, e.comparators):
            right = self.ev(r, f)
            c = self.compare(op, left, right)
            if not self.truth(c):
                return False
            left = right
        return True

    def ev_slice(self, s, f):
        if isinstance(s, ast.Slice):
            return slice(self.ev(s.lower, f) if s.lower is not None else None,
                         self.ev(s.upper, f) if s.upper is not None else None,
                         self.ev(s.step, f) if s.step is not None else None)
        return self.ev(s, f)

    def e_Subscript(self, e, f):
        return self.getitem(self.ev(e.value, f), self.ev_slice(e.slice, f))

    def conc_index(self, v, n, for_slice):
        """Concretise an index/slice bound against a sequence of concrete length n."""
        if v is None or not is_sym(v):
            return v
        if not isinstance(v, SInt):
            raise TypeError('indices must be integers')
        if for_slice:
            if self.truth(mk_bool(v.e >= n)):
                return n
            if self.truth(mk_bool(v.e < 0)):
                if self.truth(mk_bool(v.e <= -n)):
                    return -n if n else 0
                return -self.choose_int(mk_int(-v.e), 1, n - 1)
            return self.choose_int(v, 0, n - 1)
        if self.truth(mk_bool(z3.Or(v.e >= n, v.e < -n))):
            raise IndexError('index out of range')
        if self.truth(mk_bool(v.e < 0)):
            return -self.choose_int(mk_int(-v.e), 1, n)
        return self.choose_int(v, 0, n - 1)

    def getitem(self, o, k):
        if isinstance(o, SBytes):
            from . import models
            return models.sbytes_getitem(self, o, k)
        from . import models_str as ms
        if isinstance(o, ms.SStr):
            n = len(o.a)
            if isinstance(k, slice):
                if k.step is not None:
                    if is_sym(k.step) or is_sym(k.start) or is_sym(k.stop):
                        raise Unsupported('symbolic slice with step on str')
                    return ms.mk_str(o.a[k])
                return ms.mk_str(o.a[self.conc_index(k.start, n, True):self.conc_index(k.stop, n, True)])
            return ms.mk_str([o.a[self.conc_index(k, n, False)]])
        if isinstance(o, dict):
            r = self.dict_find(o, k)
            if r is MISSING:
                if hasattr(type(o), '__missing__') and not is_sym(k):
                    return o[k]                 # defaultdict and friends
                raise KeyError(k if not is_sym(k) else '<sym>')
            return r
        if isinstance(o, (str, bytes)) and isinstance(k, SInt) and 0 < len(o) <= 4096:
            # constant table, symbolic index: one in-range decision, then an ite chain
            n = len(o)
            if self.truth(mk_bool(z3.Or(k.e >= n, k.e < -n))):
                raise IndexError('string index out of range')
            idx = k.e
            if self.truth(mk_bool(idx < 0)):
                idx = z3.simplify(idx + n)
            vals = [ord(c) for c in o] if isinstance(o, str) else list(o)
            t = z3.Select(idx, vals)
            return ms.mk_str([t]) if isinstance(o, str) else mk_int(t)
        if isinstance(o, (list, tuple)) and isinstance(k, SInt) and len(o) > 64 and all(isinstance(x, str) for x in o):
            return ms.table_item(self, o, k)
        if isinstance(o, (list, tuple, bytes, bytearray, str)):
            n = len(o)
            if isinstance(k, slice):
                if is_sym(k.start) or is_sym(k.stop) or is_sym(k.step):
                    if k.step is not None:
                        raise Unsupported('symbolic step')
                    k = slice(self.conc_index(k.start, n, True), self.conc_index(k.stop, n, True))
                return o[k]
            if isinstance(k, SInt) and isinstance(o, (tuple, str, bytes)) and n <= 64 and n > 0 and \
                    isinstance(o, (bytes,)):
                pass
            k = self.conc_index(k, n, False)
            return o[k]
        if self.is_interp_class(type(o)):
            m = self.static_lookup(type(o), '__getitem__')
            if m is not None and self.is_interp_callable(m):
                return self.call(m, [o, k], {})
        if is_sym(k):
            raise Unsupported('getitem with symbolic key on ' + type(o).__name__)
        return o[k]

    def setitem(self, o, k, v):
        if isinstance(o, dict):
            return self.dict_set(o, k, v)
        if isinstance(o, list):
            if isinstance(k, slice):
                o[k] = v
                return
            o[self.conc_index(k, len(o), False)] = v
            return
        if isinstance(o, SBytes) and o.mutable:
            k = self.conc_index(k, len(o), False)
            o.a[k] = v.e if isinstance(v, SInt) else v
            return
        if isinstance(o, bytearray) and not is_sym(v) and not is_sym(k):
            o[k] = v
            return
        if self.is_interp_class(type(o)):
            m = self.static_lookup(type(o), '__setitem__')
            if m is not None:
                return self.call(m, [o, k, v], {})
        if is_sym(k) or is_sym(v):
            raise Unsupported('setitem symbolic on ' + type(o).__name__)
        o[k] = v

    def e_Call(self, e, f):
        fn = self.ev(e.func, f)
        args = self.ev_seq(e.args, f)
        kw = {}
        for k in e.keywords:
            if k.arg is None:
                kw.update(self.ev(k.value, f))
            else:
                kw[k.arg] = self.ev(k.value, f)
        if fn is builtins.super and not args:
            fr = f
            while fr is not None and '$class' not in fr.env:
                fr = fr.parent
            if fr is None:
                raise Unsupported('zero-arg super outside method')
            return SuperProxy(self, fr.env['$class'], fr.env['$first'])
        return self.call(fn, args, kw)

    # comprehensions -------------------------------------------------------
    def comp(self, gens, f, emit):
        def rec(i, fr):
            if i == len(gens):
                emit(fr)
                return
            g = gens[i]
            for v in self.iterate(self.ev(g.iter, fr)):
                self.assign(g.target, v, fr)
                if all(self.truth(self.ev(c, fr)) for c in g.ifs):
                    rec(i + 1, fr)
        fr = Frame({}, f.glob, f)
        rec(0, fr)

    def e_ListComp(self, e, f):
        out = []
        self.comp(e.generators, f, lambda fr: out.append(self.ev(e.elt, fr)))
        return out

    def e_GeneratorExp(self, e, f):
        return iter(self.e_ListComp(e, f))

    def e_SetComp(self, e, f):
        out = self.e_ListComp(e, f)
        if deep_sym(out):
            raise Unsupported('set comprehension with symbolic members')
        return set(out)

    def e_DictComp(self, e, f):
        d = {}
        self.comp(e.generators, f, lambda fr: self.dict_set(d, self.ev(e.key, fr), self.ev(e.value, fr)))
        return d


class Infeasible(BaseException):
    """The current path turned out to be infeasible (assume(False) or an unproven side refuted later)."""


class _Unknown:
    def __repr__(self):
        return 'UNKNOWN'


UNKNOWN = _Unknown()


class PathRec:
    __slots__ = ('outcome', 'decisions', 'unproven', 'node')

    def __init__(self, outcome, decisions, unproven, node):
        self.outcome, self.decisions, self.unproven, self.node = outcome, decisions, unproven, node


class SKey:
    """Wrapper that lets a symbolic value sit in a real dict as a key."""
    __slots__ = ('v',)

    def __init__(self, v):
        self.v = v


class SymText:
    """Opaque text built from symbolic parts (log / exception messages only)."""

    def __init__(self, parts):
        self.parts = parts

    def __str__(self):
        return '<symtext>'

    def encode(self, *a):
        return self

    def decode(self, *a):
        return self


class LazyCoro:
    """An interpreted coroutine whose body has not started (only for the functions named in vm.lazy_async)."""

    def __init__(self, vm, node, f, env, args, realfn):
        self.p = (node, f, env, args, realfn)
        self.started = False

    def __vm_await__(self, vm):
        if self.started:
            raise RuntimeError('cannot reuse already awaited coroutine')
        self.started = True
        node, f, env, args, realfn = self.p
        env['$lazy_started'] = True
        return vm.await_(vm._call_interp(node, f, env, args, realfn))

    def close(self):
        self.started = True


class Done:
    """Result of an interpreted coroutine that already ran to completion."""

    def __init__(self, v):
        self.v = v


class NoOp:
    def __call__(self, *a, **k):
        return self

    def __getattr__(self, n):
        return self


NOOP = NoOp()


class BoundModel:
    def __init__(self, model, obj, name=None):
        self.model = model
        self.obj = obj
        self.name = name


class _Missing:
    pass


MISSING = _Missing()

DUNDER = {ast.Add: ('__add__', '__radd__'), ast.Sub: ('__sub__', '__rsub__'), ast.Mult: ('__mul__', '__rmul__'),
          ast.Div: ('__truediv__', '__rtruediv__'), ast.FloorDiv: ('__floordiv__', '__rfloordiv__'),
          ast.Mod: ('__mod__', '__rmod__')}


def walk_no_nested(node):
    todo = list(ast.iter_child_nodes(node))
    while todo:
        n = todo.pop()
        if isinstance(n, (ast.FunctionDef, ast.AsyncFunctionDef, ast.Lambda, ast.ClassDef)):
            continue
        yield n
        todo.extend(ast.iter_child_nodes(n))


def unhex_pairs(aa, bb):
    """Both sides carry the two hex digits of one byte at the same place: compare the bytes instead of the digits."""
    if not any(z3.is_expr(x) and x.op == 'hexhi' for x in aa):
        return aa, bb
    oa, ob = [], []
    i, n = 0, len(aa)

    def pair(v, i):
        return (i + 1 < len(v) and z3.is_expr(v[i]) and z3.is_expr(v[i + 1]) and v[i].op == 'hexhi' and v[i + 1].op == 'hexlo'
                and v[i].args[0] is v[i + 1].args[0])
    while i < n:
        if pair(aa, i) and pair(bb, i):
            oa.append(aa[i].args[0])
            ob.append(bb[i].args[0])
            i += 2
        else:
            oa.append(aa[i])
            ob.append(bb[i])
            i += 1
    return oa, ob


def is_sym_len(x):
    return z3.is_expr(x)


def atom_z(x):
    return x if z3.is_expr(x) else z3.IntVal(x)


def mk_bytes_len(atoms):
    return SBytes(atoms).length()


def sym_pyname(o):
    return {SInt: 'int', SBool: 'bool', SBytes: 'bytes'}.get(type(o), type(o).__name__)


class SuperProxy:
    def __init__(self, vm, cls, obj):
        self.vm, self.cls, self.obj = vm, cls, obj


def defining_class(fn):
    parts = fn.__qualname__.split('.')
    if '<locals>' in parts:
        return None
    obj = fn.__globals__.get(parts[0])
    for p in parts[1:-1]:
        obj = getattr(obj, p, None)
    return obj if isinstance(obj, type) else None


VM_SIGNALS = (Unsupported, BoundExceeded, ReturnEx, BreakEx, ContinueEx, Infeasible)
import textwrap as _textwrap
TEXT_ONLY = {_textwrap.dedent, _textwrap.indent}    # message helpers: opaque text in, opaque text out
