"""Native replay: the same harness function runs on real CPython against the real /repo code, with the
`vm.new_*` calls answered from a solver model (creation order / names).  Used (a) to confirm every solver
counterexample before it is reported and (b) to validate the interpreter and its library models on every
explored path (the native outcome must equal the symbolic outcome under the path's model)."""
import hashlib
import signal
import sys


class ReplayDiverged(Exception):
    """The native execution asked for an input the symbolic path never created (or of another kind)."""


class AssumeFailed(BaseException):
    """A harness precondition is false under the supplied inputs."""


class WatchdogTimeout(BaseException):
    """The code under test did not return within the watchdog period."""


def run_bytes(rid, n, fill=None):
    """Deterministic content for an opaque run: distinct runs get distinct contents (w.h.p.)."""
    if n <= 0:
        return b''
    if isinstance(fill, (bytes, bytearray)) and fill:
        return (bytes(fill) * (n // len(fill) + 1))[:n]
    seed = hashlib.sha256(rid.split('!')[0].encode() if fill == 'by-name' else rid.encode()).digest()
    if n <= 64:
        return (seed + hashlib.sha256(seed).digest())[:n]
    # long runs: a 251-byte period pattern (prime, so that 16/64-byte aligned slices differ)
    pat = b''.join(hashlib.sha256(seed + bytes([i])).digest() for i in range(8))[:251]
    return (pat * (n // 251 + 1))[:n]


class NativeVM:
    native = True

    def __init__(self, inputs, named=None):
        self.vals = list(inputs)
        self.named = dict(named or {})
        self.i = 0
        self.notes = []
        self.runs = {}

    def _next(self, kind, name):
        if self.i >= len(self.vals):
            raise ReplayDiverged(f'input #{self.i} ({kind} {name}) not in the recorded path')
        k, n, v = self.vals[self.i]
        self.i += 1
        if k != kind or n != name:
            raise ReplayDiverged(f'input #{self.i - 1}: recorded {k} {n}, asked {kind} {name}')
        return v

    def new_int(self, name, lo=None, hi=None):
        return self._next('int', name)

    def new_bool(self, name):
        return self._next('bool', name)

    def new_bytes(self, name, n, bv=False):
        return bytes(self._next('bytes', name))

    def new_str(self, name, n, lo=0, hi=0x10FFFF):
        return ''.join(map(chr, self._next('str', name)))

    def new_run(self, name, lo=0, hi=None, fill=None):
        rid, n, fill2 = self._next('run', name)
        b = run_bytes(rid, n, fill if fill is not None else fill2)
        planted = [(int(k.split('|')[2]), v) for k, v in self.named.items() if k.startswith(f'runbyte|{rid}|')]
        if planted:
            b = bytearray(b)
            for off, v in planted:
                if 0 <= off < len(b):
                    b[off] = v
            b = bytes(b)
        self.runs[rid] = b
        return b

    def named_bool(self, name):
        return bool(self.named.get(name, False))

    def named_int(self, name, lo=None, hi=None):
        v = self.named.get(name)
        if v is None:
            v = 0 if lo is None else lo
        return v

    def assume(self, cond):
        if not cond:
            raise AssumeFailed()

    def note(self, *a):
        self.notes.append(a)

    def await_(self, aw):
        """Drive an awaitable that never really suspends (all stubs complete immediately)."""
        if hasattr(aw, '__vm_await__'):
            return aw.__vm_await__(self)
        it = aw.__await__()
        try:
            y = next(it)
        except StopIteration as e:
            return e.value
        raise RuntimeError('native await suspended on %r' % (y,))

    def truth(self, v):
        return bool(v)

    def all_of(self, conds):
        return all(bool(c) for c in conds)

    def any_of(self, conds):
        return any(bool(c) for c in conds)

    def not_(self, c):
        return not c

    def implies(self, a, b):
        return (not a) or bool(b)

    def ite(self, c, a, b):
        return a if c else b

    def choose_int(self, v, lo, hi):
        return v

    def pick(self, name, n):
        return self._next('int', name)

    def register_helper(self, name, fn):
        setattr(self, name, fn)


def _alarm(signum, frame):
    raise WatchdogTimeout()


def with_watchdog(fn, seconds=5.0, recursion_limit=None):
    """Run fn() with a wall-clock watchdog (SIGALRM -> WatchdogTimeout, a BaseException so that `except Exception`
    in the code under test cannot swallow it).  Only valid in the main thread of the process."""
    old = signal.signal(signal.SIGALRM, _alarm)
    old_rl = sys.getrecursionlimit()
    # the code under test must see the recursion limit a real node runs with (the interpreter raised it for itself)
    sys.setrecursionlimit(recursion_limit or (1000 + len(__import__('inspect').stack(0))))
    signal.setitimer(signal.ITIMER_REAL, seconds)
    try:
        return fn()
    finally:
        signal.setitimer(signal.ITIMER_REAL, 0)
        signal.signal(signal.SIGALRM, old)
        sys.setrecursionlimit(old_rl)
