"""Fork-based depth-first exploration.

At a branch whose both sides are feasible the explorer forks: the parent continues with one side, the child owns the
other side's subtree and waits for a CPU token before it continues *from the fork point* - no prefix is re-executed
and the decision tree is spread over all cores.  Children write their partial results to a scratch directory and
leave with os._exit; the root waits for all descendants and merges.  Exhaustiveness is preserved: every subtree is
owned by exactly one process and each reports whether it exhausted its own."""
import os
import pickle
import time

DEBUG = os.environ.get('VERIF_FORKDEBUG')


def dbg(msg):
    if DEBUG:
        with open(DEBUG, 'a') as f:
            f.write(f'{time.time():.3f} {os.getpid()} {msg}\n')


class ForkCtl:
    def __init__(self, ctx, scratch, tokens, max_waiting=48):
        self.scratch = scratch
        self.tokens = tokens                       # semaphore: processes allowed to run (the root job holds one already)
        self.alive = ctx.Value('i', 0)             # descendants not yet exited
        self.waiting = ctx.Value('i', 0)           # descendants forked but still waiting for a token
        self.seq = ctx.Value('i', 0)
        self.halt = ctx.Value('i', 0)              # set when the job has seen enough (canaries): every explorer stops at its next path
        self.max_waiting = max_waiting
        self.is_child = False
        self.my_id = None

    def fork(self):
        """'parent', 'child' or None (no fork: limits reached)."""
        with self.waiting.get_lock():
            if self.waiting.value >= self.max_waiting:
                return None
            self.waiting.value += 1
        with self.alive.get_lock():
            self.alive.value += 1
        with self.seq.get_lock():
            self.seq.value += 1
            my_id = self.seq.value
        try:
            pid = os.fork()
        except OSError:
            with self.waiting.get_lock():
                self.waiting.value -= 1
            with self.alive.get_lock():
                self.alive.value -= 1
            return None
        if pid:
            try:
                open(os.path.join(self.scratch, f'pid-{pid}'), 'w').close()       # lets the root notice a child that died
            except OSError:
                pass
            return 'parent'
        self.is_child = True
        self.my_id = my_id
        self.tokens.acquire()                      # wait for a CPU
        dbg('child-acquired')
        with self.waiting.get_lock():
            self.waiting.value -= 1
        return 'child'

    def child_exit(self, payload):
        """Called by a forked explorer when its subtree is finished: dump results, release the CPU, leave."""
        try:
            path = os.path.join(self.scratch, f'part-{self.my_id}.pkl')
            with open(path + '.tmp', 'wb') as f:
                pickle.dump(payload, f)
            os.rename(path + '.tmp', path)
        finally:
            try:
                open(os.path.join(self.scratch, f'done-{os.getpid()}'), 'w').close()
            except OSError:
                pass
            self.tokens.release()
            dbg('child-released')
            with self.alive.get_lock():
                self.alive.value -= 1
            os._exit(0)

    def kill_children(self):
        """Deadline: stop every forked explorer that has not reported (they would otherwise keep the CPUs busy as orphans).
        New explorers may still be forked while we kill, so scan until no live one is left."""
        import signal
        for _ in range(50):
            names = set(os.listdir(self.scratch))
            live = 0
            for name in names:
                if not name.startswith('pid-') or f'done-{name[4:]}' in names:
                    continue
                try:
                    os.kill(int(name[4:]), signal.SIGKILL)
                    live += 1
                except (ProcessLookupError, PermissionError):
                    pass
            if not live:
                break
            time.sleep(0.1)

    def _reap_dead(self):
        """A forked explorer that was killed (OOM, segfault) can neither report nor release its CPU token: account for it."""
        names = set(os.listdir(self.scratch))
        for name in names:
            if not name.startswith('pid-'):
                continue
            pid = name[4:]
            if f'done-{pid}' in names:
                continue
            try:
                os.kill(int(pid), 0)
                continue                          # still running (or waiting for a token)
            except ProcessLookupError:
                pass
            except PermissionError:
                continue
            # dead without a report; give its own exit path a moment (it writes done- before leaving)
            if f'done-{pid}' in set(os.listdir(self.scratch)):
                continue
            open(os.path.join(self.scratch, f'done-{pid}'), 'w').close()
            self.crashed += 1
            with self.alive.get_lock():
                self.alive.value -= 1
            self.tokens.release()
            dbg(f'reaped-dead {pid}')

    def wait_all(self, deadline=None):
        """Root: give up the own CPU token while waiting, then collect the partial results."""
        self.tokens.release()
        dbg('root-released')
        self.crashed = 0
        last_scan = time.time()
        try:
            while True:
                with self.alive.get_lock():
                    if self.alive.value <= 0:
                        break
                if deadline is not None and time.time() > deadline + 30:
                    self.kill_children()
                    return None
                if time.time() - last_scan > 2.0:
                    last_scan = time.time()
                    self._reap_dead()
                time.sleep(0.02)
        finally:
            self.tokens.acquire()
        parts = []
        for name in sorted(os.listdir(self.scratch)):
            if name.startswith('part-') and name.endswith('.pkl'):
                with open(os.path.join(self.scratch, name), 'rb') as f:
                    parts.append(pickle.load(f))
        return parts
