import argparse
import os
import sys

from . import boot  # noqa: F401  (must come first: deps + import shims)


def main(argv=None):
    ap = argparse.ArgumentParser(prog='vcheck')
    sub = ap.add_subparsers(dest='cmd', required=True)
    sub.add_parser('setup')
    r = sub.add_parser('run')
    r.add_argument('pid')
    r.add_argument('--tier', default=os.environ.get('VERIF_TIER') or 'quick', choices=['quick', 'thorough'])
    r.add_argument('--only', action='append')
    r.add_argument('--canaries', action='store_true')
    r.add_argument('--no-evidence', action='store_true')
    r.add_argument('-v', action='store_true')
    p = sub.add_parser('replay')
    p.add_argument('path')
    s = sub.add_parser('selftest')
    s.add_argument('pids', nargs='*')
    a = ap.parse_args(argv)
    if a.cmd == 'setup':
        boot.ensure_deps()
        import z3
        import cvc5
        print('deps ok: z3', z3.get_version_string(), 'cvc5', cvc5.__version__)
        return 0
    from . import runner
    seed = int(os.environ.get('VERIF_SEED', '0') or 0)
    if a.cmd == 'run':
        return runner.run_property(a.pid, a.tier, seed, only=a.only, canaries=True if a.canaries else None,
                                   write_evidence=not a.no_evidence and not a.only, verbose=a.v)
    if a.cmd == 'replay':
        return runner.replay_file(a.path)
    if a.cmd == 'selftest':
        import glob
        pids = a.pids or sorted(os.path.basename(p)[:-3] for p in glob.glob(os.path.join(boot.VERIF, 'harness', 'C*.py')))
        bad = 0
        for pid in pids:
            mod = runner.load_harness(pid)
            res = runner.run_canaries(pid, mod, seed)
            for c in res:
                print(f'{pid} {c["name"]}: {"killed" if c["killed"] else "MISSED"} paths={c["paths"]} {c["verdicts"] or c["errors"]}')
                bad += not c['killed']
        return 1 if bad else 0


if __name__ == '__main__':
    sys.exit(main())
