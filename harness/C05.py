"""C05 - transaction wire format and txid agree with the Bitcoin/LBRY encoding.

Interpreted from /repo: BCDataStream (compact sizes, fixed-width ints), Transaction._serialize/_deserialize/
_serialize_outputs/raw/raw_sans_segwit, Input/Output.serialize_to/deserialize_from, TXRefMutable.hash/id,
TXRefImmutable.from_hash.  Scripts are opaque runs of symbolic length; SHA-256 is an ideal function."""
from binascii import hexlify

from lbry.wallet.bcd_data_stream import BCDataStream
from lbry.wallet.hash import TXRefImmutable
from lbry.wallet.script import InputScript, OutputScript
from lbry.wallet.transaction import Transaction, Input, Output, TXORef
from lbry.crypto.hash import sha256

LEVEL_TEXT = ('Bounded model checking of the real serialiser/parser: for each shape (number of inputs/outputs) every '
              '32-bit version/sequence/locktime/position, every 64-bit amount and every script length below 2^32 is '
              'symbolic at once; the solver proves byte-for-byte equality with an independent Bitcoin encoder, field '
              'equality after parsing and identical re-serialisation; compact sizes are checked over the whole 64-bit range.')
LEVEL_NOTE = ('Trusted: z3, the interpreter and its struct/BytesIO/run models (validated by native replay of every path), the '
              'reference encoder in the harness.  SHA-256 is an ideal function (only its argument is checked).  Outside: '
              'more inputs/outputs than the shape bound, real main-net transactions (concrete data).')
ASSUMPTIONS = [
    'sha256 = ideal function: the check is that the id is hex(reverse(H(H(x)))) for x = the witness-free serialisation',
    'script bytes are opaque (uninterpreted content, symbolic length): serialisation may not depend on script content',
    'previous-output hashes are non-null (coinbase inputs are a separate job with a null hash)',
]
OUTSIDE = ['more than 3 inputs / outputs per transaction (the count varint itself is covered for all 64-bit counts)',
           'recorded main-net transactions', 'transactions with zero inputs (not constructible by the wallet)']


def ref_varint(n):
    if n < 253:
        return n.to_bytes(1, 'little')
    if n <= 0xffff:
        return b'\xfd' + n.to_bytes(2, 'little')
    if n <= 0xffffffff:
        return b'\xfe' + n.to_bytes(4, 'little')
    return b'\xff' + n.to_bytes(8, 'little')


def ref_inputs(ins):
    raw = ref_varint(len(ins))
    for (h, pos, script, seq) in ins:
        raw = raw + h + pos.to_bytes(4, 'little') + ref_varint(len(script)) + script + seq.to_bytes(4, 'little')
    return raw


def ref_outputs(outs):
    raw = ref_varint(len(outs))
    for (amount, script) in outs:
        raw = raw + amount.to_bytes(8, 'little') + ref_varint(len(script)) + script
    return raw


def ref_serialize(version, ins, outs, locktime):
    return version.to_bytes(4, 'little') + ref_inputs(ins) + ref_outputs(outs) + locktime.to_bytes(4, 'little')


def ref_txid(raw):
    return hexlify(sha256(sha256(raw))[::-1]).decode()


def make_parts(vm, n_in, n_out, coinbase):
    ins, outs = [], []
    for i in range(n_in):
        if coinbase:
            h = b'\x00' * 32
        else:
            h = vm.new_bytes('txhash', 32)
            vm.assume(h != b'\x00' * 32)
        ins.append((h, vm.new_int('pos', 0, 2 ** 32 - 1), vm.new_run('iscript', 0, 2 ** 32 - 1),
                    vm.new_int('seq', 0, 2 ** 32 - 1)))
    for i in range(n_out):
        outs.append((vm.new_int('amount', 0, 2 ** 64 - 1), vm.new_run('oscript', 0, 2 ** 32 - 1)))
    return ins, outs


def check_parsed(back, version, ins, outs, locktime, coinbase):
    if back.version != version or back.locktime != locktime:
        return 'VIOLATION: version/locktime differ after parsing'
    if len(back.inputs) != len(ins) or len(back.outputs) != len(outs):
        return 'VIOLATION: input/output counts differ after parsing'
    for i in range(len(ins)):
        bi = back.inputs[i]
        h, pos, script, seq = ins[i]
        if bi.txo_ref.tx_ref.hash != h or bi.txo_ref.position != pos or bi.sequence != seq or bi.position != i:
            return 'VIOLATION: input fields differ after parsing'
        if bi.txo_ref.tx_ref.id != hexlify(h[::-1]).decode():
            return 'VIOLATION: previous-output id is not the reversed hex hash'
        if coinbase:
            if not bi.is_coinbase or bi.coinbase != script:
                return 'VIOLATION: coinbase data differs after parsing'
        elif bi.script.source != script:
            return 'VIOLATION: input script differs after parsing'
    for i in range(len(outs)):
        bo = back.outputs[i]
        if bo.amount != outs[i][0] or bo.script.source != outs[i][1] or bo.position != i:
            return 'VIOLATION: output fields differ after parsing'
    return None


def roundtrip(vm, n_in, n_out, coinbase):
    version = vm.new_int('version', 0, 2 ** 32 - 1)
    locktime = vm.new_int('locktime', 0, 2 ** 32 - 1)
    ins, outs = make_parts(vm, n_in, n_out, coinbase)
    tx = Transaction(version=version, locktime=locktime)
    for (h, pos, script, seq) in ins:
        tx.add_inputs([Input(TXORef(TXRefImmutable.from_hash(h, -1), pos), script if coinbase else InputScript(script), seq)])
    for (amount, script) in outs:
        tx.add_outputs([Output(amount, OutputScript(script))])
    raw = tx.raw
    ref = ref_serialize(version, ins, outs, locktime)
    if raw != ref:
        return 'VIOLATION: serialisation differs from the reference Bitcoin encoding'
    if tx.id != ref_txid(ref):
        return 'VIOLATION: txid is not the reversed double SHA-256 of the serialisation'
    back = Transaction(raw)
    bad = check_parsed(back, version, ins, outs, locktime, coinbase)
    if bad is not None:
        return bad
    if back._serialize() != raw:
        return 'VIOLATION: re-serialising the parsed transaction gives other bytes'
    if back.id != tx.id:
        return 'VIOLATION: parsed transaction has another id'
    if back.is_segwit_flag:
        return 'VIOLATION: legacy transaction parsed as segwit'
    return 'ok'


def segwit(vm, n_in, n_out, items):
    version = vm.new_int('version', 0, 2 ** 32 - 1)
    locktime = vm.new_int('locktime', 0, 2 ** 32 - 1)
    flag = vm.new_int('flag', 1, 255)
    ins, outs = make_parts(vm, n_in, n_out, False)
    wit = b''
    stacks = []
    for i in range(n_in):
        stack = [vm.new_run('witness', 0, 2 ** 32 - 1) for _ in range(items)]
        stacks.append(stack)
        wit = wit + ref_varint(len(stack))
        for item in stack:
            wit = wit + ref_varint(len(item)) + item
    raw = (version.to_bytes(4, 'little') + b'\x00' + flag.to_bytes(1, 'little') + ref_inputs(ins) + ref_outputs(outs) + wit +
           locktime.to_bytes(4, 'little'))
    tx = Transaction(raw)
    bad = check_parsed(tx, version, ins, outs, locktime, False)
    if bad is not None:
        return bad
    if not tx.is_segwit_flag:
        return 'VIOLATION: segwit marker not recognised'
    flat = []
    for st in stacks:
        flat = flat + st
    if len(tx.witnesses) != len(flat):
        return 'VIOLATION: witness items lost'
    for a, b in zip(tx.witnesses, flat):
        if a != b:
            return 'VIOLATION: witness item differs'
    legacy = ref_serialize(version, ins, outs, locktime)
    if tx.raw_sans_segwit != legacy:
        return 'VIOLATION: witness-free serialisation differs from the legacy encoding'
    if tx.id != ref_txid(legacy):
        return 'VIOLATION: segwit txid is not computed over the witness-free serialisation'
    # the library cannot emit the marker, flag and witnesses itself: the parsed object must keep the bytes it was given (they are what
    # the wallet stores and serves), i.e. parsing followed by re-serialising is the identity on segwit encodings as well
    if tx.raw != raw:
        return 'VIOLATION: a parsed segwit transaction does not re-serialise to the bytes it was parsed from'
    if tx.size != len(raw):
        return 'VIOLATION: the size of a parsed segwit transaction is not the length of its encoding'
    return 'ok'


def compact_size(vm, lo, hi):
    """read(write(n)) = n and write(n) is Bitcoin's CompactSize, for all n in the job's range."""
    n = vm.new_int('n', lo, hi)
    s = BCDataStream()
    try:
        s.write_compact_size(n)
    except Exception:
        if 0 <= n < 2 ** 64:
            return 'VIOLATION: representable size refused'
        return 'ok-refused'
    if not 0 <= n < 2 ** 64:
        return 'VIOLATION: size outside 64 bits encoded'
    raw = s.get_bytes()
    if raw != ref_varint(n):
        return 'VIOLATION: compact size differs from the reference encoding'
    if len(raw) != (1 if n < 253 else 3 if n <= 0xffff else 5 if n <= 0xffffffff else 9):
        return 'VIOLATION: compact size is not minimal'
    back = BCDataStream(raw + b'\x99')
    if back.read_compact_size() != n:
        return 'VIOLATION: compact size does not read back'
    if back.read(5) != b'\x99':
        return 'VIOLATION: compact size reader consumed the wrong number of bytes'
    return 'ok'


def fixed_ints(vm):
    """write_uintN / read_uintN are little-endian and inverse for every value."""
    for bits, wname, rname in ((8, 'write_uint8', 'read_uint8'), (16, 'write_uint16', 'read_uint16'),
                               (32, 'write_uint32', 'read_uint32'), (64, 'write_uint64', 'read_uint64')):
        v = vm.new_int('v%d' % bits, 0, 2 ** bits - 1)
        s = BCDataStream()
        getattr(s, wname)(v)
        raw = s.get_bytes()
        if raw != v.to_bytes(bits // 8, 'little'):
            return 'VIOLATION: %s is not little-endian' % wname
        if getattr(BCDataStream(raw), rname)() != v:
            return 'VIOLATION: %s does not invert %s' % (rname, wname)
    return 'ok'


def sym_setup(vm, job):
    from symvm.ideal import IdealFn
    import lbry.wallet.transaction as T
    h = IdealFn(vm, 'sha256', 32, injective=True, bv=False)     # Int bytes: the id goes through hexlify().decode()
    vm.models[id(sha256)] = h.model()
    vm.models[id(T.sha256)] = h.model()


def jobs(tier):
    out = []
    shapes = [(1, 1), (1, 2), (2, 1), (2, 2)] if tier == 'quick' else [(a, b) for a in (1, 2, 3) for b in (1, 2, 3)]
    for a, b in shapes:
        out.append(dict(name=f'roundtrip-{a}in-{b}out', family='roundtrip', fn='roundtrip', args=(a, b, False), loop_bound=60,
                        max_depth=50, cost=10 * 3 ** (a + b),
                        bounds=dict(inputs=a, outputs=b, ints='all 32/64-bit values symbolic', scripts='runs, every length < 2^32'),
                        must_reach=('ok',)))
    out.append(dict(name='roundtrip-coinbase', family='roundtrip', fn='roundtrip', args=(1, 1, True), loop_bound=60, max_depth=50,
                    cost=30, bounds=dict(inputs='1 coinbase (null previous hash)', outputs=1), must_reach=('ok',)))
    for a, b, items in ([(1, 1, 1), (1, 1, 2), (2, 1, 1), (1, 2, 1)] if tier == 'quick' else
                        [(1, 1, 0), (1, 1, 1), (1, 1, 2), (2, 1, 1), (1, 2, 1), (2, 2, 1), (3, 1, 1), (1, 3, 1)]):
        out.append(dict(name=f'segwit-{a}in-{b}out-{items}items', family='segwit', fn='segwit', args=(a, b, items), loop_bound=60,
                        max_depth=50, cost=20 * 3 ** (a + b + items),
                        bounds=dict(inputs=a, outputs=b, witness_items_per_input=items, flag='1..255'), must_reach=('ok',)))
    for lo, hi in ((-3, 2 ** 16 + 2), (2 ** 16 + 3, 2 ** 32 + 2), (2 ** 32 + 3, 2 ** 64 + 5)):
        out.append(dict(name=f'compact-size-{lo}', family='compact', fn='compact_size', args=(lo, hi), loop_bound=20, max_depth=30,
                        cost=5, bounds=dict(n=f'[{lo}, {hi}]')))
    out.append(dict(name='fixed-ints', family='ints', fn='fixed_ints', args=(), loop_bound=20, max_depth=30, cost=5,
                    bounds=dict(values='every 8/16/32/64-bit value'), must_reach=('ok',)))
    return out


def finding_key(job, verdict, inputs, named):
    return f'{job.get("family")}|{verdict}'


def _const(frm, to):
    def mutate(node):
        import ast
        for n in ast.walk(node):
            if isinstance(n, ast.Constant) and n.value == frm and not isinstance(n.value, bool):
                n.value = to
                return True
        return False
    return mutate


def _sans_segwit_ignored(node):
    import ast
    for n in ast.walk(node):
        if isinstance(n, ast.If) and isinstance(n.test, ast.Attribute) and n.test.attr == 'is_segwit_flag':
            n.test = ast.Constant(False)
            return True
    return False


CANARIES = [
    dict(name='compact-size-253-boundary', target='lbry.wallet.bcd_data_stream:BCDataStream.write_compact_size',
         mutate=_const(253, 254), job=dict(family='compact', fn='compact_size', args=(-3, 2 ** 16 + 2), loop_bound=20, max_depth=30)),
    dict(name='compact-size-in-script-length', target='lbry.wallet.bcd_data_stream:BCDataStream.write_compact_size',
         mutate=_const(0xFFFF, 0xFFFE), job=dict(family='roundtrip', fn='roundtrip', args=(1, 1, False), loop_bound=60, max_depth=50)),
    dict(name='txid-includes-witness', target='lbry.wallet.transaction:Transaction.raw_sans_segwit', mutate=_sans_segwit_ignored,
         job=dict(family='segwit', fn='segwit', args=(1, 1, 1), loop_bound=60, max_depth=50)),
]
