"""C19 - disk cleanup deletes only when over a limit and never the user's own blobs.

Interpreted from /repo: DiskSpaceManager.{clean,_clean,get_space_used_mb,get_space_used_bytes} on stub db / config /
blob manager objects.  The float divisions by 1024.0 are modelled exactly (rounding-free dyadic path, DESIGN.md 3.5)."""
from lbry.blob.disk_space_manager import DiskSpaceManager

LEVEL_TEXT = ('Bounded model checking of the real cleanup pass: limits, per-class usage and the sizes of up to k removable '
              'blobs per class are symbolic integers, so one exploration covers every mix of limits 0 / below / equal / '
              'above usage; both classes and a second pass are run and the accounting obligations are solver-checked on '
              'every path.')
LEVEL_NOTE = ('Trusted: z3, the interpreter and its exact dyadic float model (replayed natively on real floats on every '
              'path), the stub store (returns the removable blobs of the class it is asked for and recomputes usage after '
              'deletions).  Outside: the SQL that classifies blobs and orders candidates.')
ASSUMPTIONS = [
    'db stub: get_stored_blobs(is_mine, is_network_blob) returns the not-yet-deleted removable blobs of that class in a '
    'fixed order and records its arguments; get_stored_blob_disk_usage returns fixed per-class base usage plus the sizes '
    'of blobs not yet deleted; own blobs are only reachable through is_mine=True (asserted never requested)',
    'blob sizes and usages below 2^50 bytes; limits 0..10^6 MB; between passes each class may grow by up to 2^45 bytes',
]
OUTSIDE = ['the SQL queries of SQLiteStorage that compute usage and choose candidates', 'more removable blobs than the bound']

MB = 1024 * 1024


class Cfg:
    def __init__(self, content, network):
        self.blob_storage_limit = content
        self.network_storage_limit = network


class DB:
    def __init__(self, base, blobs):
        self.base = base                  # class -> bytes not attributable to removable blobs
        self.blobs = blobs                # class flag (is_network) -> list of [hash, size, deleted?]
        self.queries = []
        self.stopped = 0

    async def get_stored_blob_disk_usage(self):
        net = self.base['network_storage']
        for b in self.blobs[True]:
            if not b[2]:
                net = net + b[1]
        content = self.base['content_storage']
        for b in self.blobs[False]:
            if not b[2]:
                content = content + b[1]
        private = self.base['private_storage']
        return {'network_storage': net, 'content_storage': content, 'private_storage': private,
                'total': net + content + private}

    async def get_stored_blobs(self, is_mine, is_network_blob=False):
        self.queries.append((is_mine, is_network_blob))
        if is_mine:
            return [('OWN-BLOB', 1000, 0)]
        return [(b[0], b[1], 0) for b in self.blobs[bool(is_network_blob)] if not b[2]]

    async def stop_all_files(self):
        self.stopped += 1


class BM:
    def __init__(self, db):
        self.db = db
        self.deleted = []

    async def delete_blobs(self, hashes, delete_from_db=True):
        for h in hashes:
            self.deleted.append(h)
            for cls in (False, True):
                for b in self.db.blobs[cls]:
                    if b[0] == h:
                        b[2] = True


def used_mb(usage, network):
    if network:
        return usage['network_storage'] // MB
    return usage['content_storage'] // MB + usage['private_storage'] // MB


def check_class(network, limit, before_mb, blobs, deleted):
    """Obligations of one class for one pass; `deleted` = hashes of this class deleted in the pass (in order)."""
    k = len(blobs)
    want = [b[0] for b in blobs[:len(deleted)]]
    if deleted != want:
        return 'VIOLATION: deleted blobs are not a prefix of the removable candidates of the class'
    unlimited = (not network) and limit == 0
    if unlimited and deleted:
        return 'VIOLATION: deleted although content storage is unlimited'
    if before_mb <= limit and deleted:
        return 'VIOLATION: deleted although usage is within the limit'
    if not unlimited and before_mb > limit:
        freed = 0
        for b in blobs[:len(deleted)]:
            freed = freed + b[1] // MB
        if before_mb - freed > limit and len(deleted) < k:
            return 'VIOLATION: stopped while still over the limit although removable blobs remained'
        if deleted:
            freed_before_last = freed - blobs[len(deleted) - 1][1] // MB
            if before_mb - freed_before_last <= limit:
                return 'VIOLATION: deleted more than the excess plus one blob of whole-megabyte accounting'
    return None


def run(vm, k, passes):
    content_limit = vm.new_int('content_limit', 0, 10 ** 6)
    network_limit = vm.new_int('network_limit', 0, 10 ** 6)
    base = {'network_storage': vm.new_int('net_base', 0, 2 ** 50), 'content_storage': vm.new_int('content_base', 0, 2 ** 50),
            'private_storage': vm.new_int('private', 0, 2 ** 50)}
    blobs = {False: [['c%d' % i, vm.new_int('csize', 0, 2 ** 40), False] for i in range(k)],
             True: [['n%d' % i, vm.new_int('nsize', 0, 2 ** 40), False] for i in range(k)]}
    db = DB(base, blobs)
    bm = BM(db)
    dsm = DiskSpaceManager(Cfg(content_limit, network_limit), db, bm)
    any_deleted = False
    for p in range(passes):
        if p > 0:
            # between passes the node keeps downloading: usage of both classes may grow by any amount
            base['content_storage'] = base['content_storage'] + vm.new_int('content_growth', 0, 2 ** 45)
            base['network_storage'] = base['network_storage'] + vm.new_int('network_growth', 0, 2 ** 45)
            sufficed = False
        usage = vm.await_(db.get_stored_blob_disk_usage())
        before = {False: used_mb(usage, False), True: used_mb(usage, True)}
        candidates = {False: [b for b in blobs[False] if not b[2]], True: [b for b in blobs[True] if not b[2]]}
        already = len(bm.deleted)
        try:
            vm.await_(dsm.clean())
        except Exception as e:
            return 'VIOLATION: cleanup pass raised %s' % type(e).__name__
        deleted = bm.deleted[already:]
        for q in db.queries:
            if q[0]:
                return 'VIOLATION: asked the store for the user\'s own blobs'
        if 'OWN-BLOB' in deleted:
            return 'VIOLATION: deleted a blob the user published'
        for cls in (False, True):
            mine = [h for h in deleted if h[0] == ('n' if cls else 'c')]
            bad = check_class(cls, network_limit if cls else content_limit, before[cls], candidates[cls], mine)
            if bad is not None:
                return bad + (' (network class' if cls else ' (content class') + ', pass %d)' % (p + 1)
        if p > 0 and deleted and sufficed:
            return 'VIOLATION: a second pass deleted again although the first pass had brought usage within the limits'
        usage2 = vm.await_(db.get_stored_blob_disk_usage())
        sufficed = True
        for cls in (False, True):
            limit = network_limit if cls else content_limit
            if (cls or limit != 0) and used_mb(usage2, cls) > limit:
                sufficed = False
        if deleted:
            any_deleted = True
            if db.stopped < 1:
                return 'VIOLATION: blobs deleted without stopping the file streams first'
    return 'ok-deleted' if any_deleted else 'ok-nothing'


def space_used(vm):
    """get_space_used_mb reports whole megabytes of each class (floor), cached or not."""
    base = {'network_storage': vm.new_int('net', 0, 2 ** 51), 'content_storage': vm.new_int('content', 0, 2 ** 51),
            'private_storage': vm.new_int('private', 0, 2 ** 51)}
    db = DB(base, {False: [], True: []})
    dsm = DiskSpaceManager(Cfg(0, 0), db, BM(db))
    got = vm.await_(dsm.get_space_used_mb(cached=False))
    for key in ('network_storage', 'content_storage', 'private_storage'):
        if got[key] != base[key] // MB:
            return 'VIOLATION: get_space_used_mb is not the whole-megabyte usage'
    again = vm.await_(dsm.get_space_used_mb())
    if again != got:
        return 'VIOLATION: cached usage differs'
    return 'ok'


def jobs(tier):
    out = []
    ks = [(0, 2), (1, 2), (2, 2), (3, 2)] if tier == 'quick' else [(0, 2), (1, 2), (2, 2), (3, 2), (4, 2), (5, 2), (6, 1), (3, 3)]
    for k, passes in ks:
        out.append(dict(name=f'clean-{k}-blobs-{passes}-passes', family='clean', fn='run', args=(k, passes), loop_bound=50,
                        max_depth=40, cost=10 ** k,
                        bounds=dict(removable_blobs_per_class=k, passes=passes, limits='0..10^6 MB symbolic',
                                    usage='symbolic < 2^50 bytes', blob_sizes='symbolic < 2^40 bytes'),
                        must_reach=('ok-nothing',) + (('ok-deleted',) if k else ())))
    out.append(dict(name='space-used', family='space', fn='space_used', args=(), loop_bound=50, max_depth=40, cost=1,
                    bounds=dict(usage='symbolic < 2^51 bytes per class'), must_reach=('ok',)))
    return out


def finding_key(job, verdict, inputs, named):
    import re
    return f'{job.get("family")}|{re.sub(r", pass [0-9]+", "", verdict)}'


def _drop_is_mine(node):
    import ast
    for n in ast.walk(node):
        if isinstance(n, ast.keyword) and n.arg == 'is_mine':
            n.value = ast.Constant(True)
            return True
    return False


def _ge_to_gt(node):
    import ast
    for n in ast.walk(node):
        if isinstance(n, ast.If) and isinstance(n.test, ast.Compare) and isinstance(n.test.ops[0], ast.GtE) \
                and isinstance(n.body[0], ast.Break):
            n.test.ops[0] = ast.Gt()
            return True
    return False


CANARIES = [
    dict(name='asks-for-own-blobs', target='lbry.blob.disk_space_manager:DiskSpaceManager._clean', mutate=_drop_is_mine,
         job=dict(family='clean', fn='run', args=(1, 1), loop_bound=50, max_depth=40)),
    dict(name='break-one-blob-late', target='lbry.blob.disk_space_manager:DiskSpaceManager._clean', mutate=_ge_to_gt,
         job=dict(family='clean', fn='run', args=(2, 1), loop_bound=50, max_depth=40)),
]
