"""C19 - disk cleanup deletes only when over a limit and never the user's own blobs.

Interpreted from /repo: DiskSpaceManager.{clean,_clean,get_space_used_mb,get_space_used_bytes} on stub db / config /
blob manager objects.  The float divisions by 1024.0 are modelled exactly (rounding-free dyadic path, DESIGN.md 3.5)."""
from lbry.blob.disk_space_manager import DiskSpaceManager

LEVEL_TEXT = ('Bounded model checking of the real cleanup pass: limits, per-class usage and the sizes of up to k removable '
              'blobs per class are symbolic integers, so one exploration covers every mix of limits 0 / below / equal / '
              'above usage; both classes and a second pass are run and the accounting obligations are solver-checked on '
              'every path.')
LEVEL_NOTE = ('Trusted: z3, the interpreter and its exact dyadic float model (replayed natively on real floats on every '
              'path), the stub store (returns the removable blobs of the class it is asked for and recomputes usage after '
              'deletions).  The clean-real-sql job replaces the stub store by the real SQLiteStorage on the real sqlite3 library and the real '
              'BlobManager on a model blob directory (concrete blob sizes, symbolic limits): there the SQL that classifies blobs and lists '
              'candidates is executed, not modelled.')
ASSUMPTIONS = [
    'db stub: get_stored_blobs(is_mine, is_network_blob) returns the not-yet-deleted removable blobs of that class in a '
    'fixed order and records its arguments; get_stored_blob_disk_usage returns fixed per-class base usage plus the sizes '
    'of blobs not yet deleted; own blobs are only reachable through is_mine=True (asserted never requested)',
    'blob sizes and usages below 2^50 bytes; limits 0..10^6 MB; between passes each class may grow by up to 2^45 bytes',
]
OUTSIDE = ['the SQL queries of SQLiteStorage outside the clean-real-sql job (there they run for real, on one family of concrete scenarios)', 'more removable blobs than the bound']

MB = 1024 * 1024


class Cfg:
    def __init__(self, content, network):
        self.blob_storage_limit = content
        self.network_storage_limit = network


class DB:
    def __init__(self, base, blobs):
        self.base = base                  # class -> bytes not attributable to removable blobs
        self.blobs = blobs                # class flag (is_network) -> list of [hash, size, deleted?]
        self.queries = []
        self.stopped = 0

    async def get_stored_blob_disk_usage(self):
        net = self.base['network_storage']
        for b in self.blobs[True]:
            if not b[2]:
                net = net + b[1]
        content = self.base['content_storage']
        for b in self.blobs[False]:
            if not b[2]:
                content = content + b[1]
        private = self.base['private_storage']
        return {'network_storage': net, 'content_storage': content, 'private_storage': private,
                'total': net + content + private}

    async def get_stored_blobs(self, is_mine, is_network_blob=False):
        self.queries.append((is_mine, is_network_blob))
        if is_mine:
            return [('OWN-BLOB', 1000, 0)]
        return [(b[0], b[1], 0) for b in self.blobs[bool(is_network_blob)] if not b[2]]

    async def stop_all_files(self):
        self.stopped += 1


class BM:
    def __init__(self, db):
        self.db = db
        self.deleted = []

    async def delete_blobs(self, hashes, delete_from_db=True):
        for h in hashes:
            self.deleted.append(h)
            for cls in (False, True):
                for b in self.db.blobs[cls]:
                    if b[0] == h:
                        b[2] = True


def used_mb(usage, network):
    if network:
        return usage['network_storage'] // MB
    return usage['content_storage'] // MB + usage['private_storage'] // MB


def check_class(network, limit, before_mb, blobs, deleted):
    """Obligations of one class for one pass; `deleted` = hashes of this class deleted in the pass (in order)."""
    k = len(blobs)
    want = [b[0] for b in blobs[:len(deleted)]]
    if deleted != want:
        return 'VIOLATION: deleted blobs are not a prefix of the removable candidates of the class'
    unlimited = (not network) and limit == 0
    if unlimited and deleted:
        return 'VIOLATION: deleted although content storage is unlimited'
    if before_mb <= limit and deleted:
        return 'VIOLATION: deleted although usage is within the limit'
    if not unlimited and before_mb > limit:
        freed = 0
        for b in blobs[:len(deleted)]:
            freed = freed + b[1] // MB
        if before_mb - freed > limit and len(deleted) < k:
            return 'VIOLATION: stopped while still over the limit although removable blobs remained'
        if deleted:
            freed_before_last = freed - blobs[len(deleted) - 1][1] // MB
            if before_mb - freed_before_last <= limit:
                return 'VIOLATION: deleted more than the excess plus one blob of whole-megabyte accounting'
    return None


def run(vm, k, passes):
    content_limit = vm.new_int('content_limit', 0, 10 ** 6)
    network_limit = vm.new_int('network_limit', 0, 10 ** 6)
    base = {'network_storage': vm.new_int('net_base', 0, 2 ** 50), 'content_storage': vm.new_int('content_base', 0, 2 ** 50),
            'private_storage': vm.new_int('private', 0, 2 ** 50)}
    blobs = {False: [['c%d' % i, vm.new_int('csize', 0, 2 ** 40), False] for i in range(k)],
             True: [['n%d' % i, vm.new_int('nsize', 0, 2 ** 40), False] for i in range(k)]}
    db = DB(base, blobs)
    bm = BM(db)
    dsm = DiskSpaceManager(Cfg(content_limit, network_limit), db, bm)
    any_deleted = False
    for p in range(passes):
        if p > 0:
            # between passes the node keeps downloading: usage of both classes may grow by any amount
            base['content_storage'] = base['content_storage'] + vm.new_int('content_growth', 0, 2 ** 45)
            base['network_storage'] = base['network_storage'] + vm.new_int('network_growth', 0, 2 ** 45)
            sufficed = False
        usage = vm.await_(db.get_stored_blob_disk_usage())
        before = {False: used_mb(usage, False), True: used_mb(usage, True)}
        candidates = {False: [b for b in blobs[False] if not b[2]], True: [b for b in blobs[True] if not b[2]]}
        already = len(bm.deleted)
        try:
            vm.await_(dsm.clean())
        except Exception as e:
            return 'VIOLATION: cleanup pass raised %s' % type(e).__name__
        deleted = bm.deleted[already:]
        for q in db.queries:
            if q[0]:
                return 'VIOLATION: asked the store for the user\'s own blobs'
        if 'OWN-BLOB' in deleted:
            return 'VIOLATION: deleted a blob the user published'
        for cls in (False, True):
            mine = [h for h in deleted if h[0] == ('n' if cls else 'c')]
            bad = check_class(cls, network_limit if cls else content_limit, before[cls], candidates[cls], mine)
            if bad is not None:
                return bad + (' (network class' if cls else ' (content class') + ', pass %d)' % (p + 1)
        if p > 0 and deleted and sufficed:
            return 'VIOLATION: a second pass deleted again although the first pass had brought usage within the limits'
        usage2 = vm.await_(db.get_stored_blob_disk_usage())
        sufficed = True
        for cls in (False, True):
            limit = network_limit if cls else content_limit
            if (cls or limit != 0) and used_mb(usage2, cls) > limit:
                sufficed = False
        if deleted:
            any_deleted = True
            if db.stopped < 1:
                return 'VIOLATION: blobs deleted without stopping the file streams first'
    return 'ok-deleted' if any_deleted else 'ok-nothing'


def space_used(vm):
    """get_space_used_mb reports whole megabytes of each class (floor), cached or not."""
    base = {'network_storage': vm.new_int('net', 0, 2 ** 51), 'content_storage': vm.new_int('content', 0, 2 ** 51),
            'private_storage': vm.new_int('private', 0, 2 ** 51)}
    db = DB(base, {False: [], True: []})
    dsm = DiskSpaceManager(Cfg(0, 0), db, BM(db))
    got = vm.await_(dsm.get_space_used_mb(cached=False))
    for key in ('network_storage', 'content_storage', 'private_storage'):
        if got[key] != base[key] // MB:
            return 'VIOLATION: get_space_used_mb is not the whole-megabyte usage'
    again = vm.await_(dsm.get_space_used_mb())
    if again != got:
        return 'VIOLATION: cached usage differs'
    return 'ok'


# ------------------------------------------------------------------------------------------------ the same pass over the real SQL
# The classification of blobs (own / downloaded content / network-seeded), the usage sums and the candidate lists are computed by SQL in
# SQLiteStorage.  Here the real storage code runs on the real sqlite3 library (in-memory database, real schema; harness/sqlstore.py), the
# real BlobManager deletes from a model blob directory, and the reference classification comes from the scenario, not from SQL.
MIB2 = 2 * MB


class SBlob:
    def __init__(self, blob_hash, length, blob_num=0, is_mine=False, added_on=1):
        self.blob_hash, self.length, self.blob_num, self.is_mine, self.added_on = blob_hash, length, blob_num, is_mine, added_on
        self.iv = '00' * 16


class SDescriptor:
    def __init__(self, tag, sizes, is_mine, added_on):
        self.stream_hash = (tag + 'f') * 48
        self.sd_hash = (tag + '0') * 48
        self.key = '11' * 16
        self.stream_name = self.suggested_file_name = 'file-' + tag
        self.blobs = [SBlob((tag + '%x' % (i + 1)) * 48, size, i, is_mine, added_on + i) for i, size in enumerate(sizes)]
        self.blobs.append(SBlob(None, 0, len(sizes), is_mine, added_on))            # the empty stream terminator
        self.sd_blob = SBlob(self.sd_hash, 700 + len(sizes), 0, is_mine, added_on)


def sql_world(vm, storage, files):
    """Builds the scenario through the real storage API; returns hash -> [class, size, finished]."""
    ref = {}
    own = SDescriptor('a', [MIB2, 1600000], True, 10)
    got = SDescriptor('b', [MIB2, 1300000, MIB2], False, 20)
    unfinished = vm.pick('downloaded_blob_3_still_pending', 2)
    for d, kind in ((own, 'private'), (got, 'content')):
        vm.await_(storage.store_stream(d.sd_blob, d))
        if kind == 'private':
            vm.await_(storage.save_published_file(d.stream_hash, 'name', '/downloads', 0.0))
        else:
            vm.await_(storage.save_downloaded_file(d.stream_hash, 'name', '/downloads', 0.0))
        for i, b in enumerate([d.sd_blob] + d.blobs[:-1]):
            done = not (kind == 'content' and i == 3 and unfinished)
            ref[b.blob_hash] = ['sd-' + kind if i == 0 else kind, b.length, done]
            if done:
                files[b.blob_hash] = b.length
                vm.await_(storage.add_blobs((b.blob_hash, b.length, b.added_on, b.is_mine), finished=True))
    n_net = (0, 2, 3)[vm.pick('network_blobs', 3)]
    for i, size in enumerate((MIB2, 1200000, MIB2)[:n_net]):
        h = ('c%x' % (i + 1)) * 48
        ref[h] = ['network', size, True]
        files[h] = size
        vm.await_(storage.add_blobs((h, size, 30 + i, False), finished=True))
    return ref


def ref_usage_mb(ref, files, network):
    sums = {'network': 0, 'content': 0, 'private': 0}
    for h in ref:
        kind, size, done = ref[h]
        if done and h in files and kind in sums:
            sums[kind] += size
    if network:
        return sums['network'] // MB
    return sums['content'] // MB + sums['private'] // MB


def start_manager(vm, storage):
    from harness import C18
    from lbry.blob.blob_manager import BlobManager
    manager = BlobManager(C18.LOOP[0], C18.BLOB_DIR, storage, C18.Config())
    vm.await_(manager.setup())
    return manager


def clean_sql(vm, passes):
    from harness import C18
    from harness.sqlstore import new_storage
    C18.C01_VM[0] = vm
    C18.LOOP[0] = C18.Loop()
    files, _ = C18.ENV[0].state()
    storage = new_storage(C18.LOOP[0])
    ref = sql_world(vm, storage, files)
    if vm.pick('blob_directory_lost_and_restored_before', 2):
        # the blob directory was unavailable at one start (every finished row is downgraded to pending) and back at the next one
        # (every file found is recorded as finished again by the real start-up reconciliation)
        saved = dict(files)
        files.clear()
        start_manager(vm, storage)
        files.update(saved)
    manager = start_manager(vm, storage)
    content_limit = vm.new_int('content_limit', 0, 12)
    network_limit = vm.new_int('network_limit', 0, 12)
    dsm = DiskSpaceManager(Cfg(content_limit, network_limit), storage, manager)
    removable = {False: [h for h in sorted(ref) if ref[h][0] in ('content', 'sd-content') and ref[h][2]],
                 True: [h for h in sorted(ref) if ref[h][0] == 'network' and ref[h][2]]}
    any_deleted = False
    sufficed = False
    for p in range(passes):
        before_files = dict(files)
        before = {False: ref_usage_mb(ref, files, False), True: ref_usage_mb(ref, files, True)}
        reported = vm.await_(dsm.get_space_used_mb(cached=False))
        if reported['network_storage'] != before[True] or reported['content_storage'] + reported['private_storage'] != before[False]:
            return 'VIOLATION: the usage computed by the storage layer differs from the blobs of each class that are stored'
        try:
            vm.await_(dsm.clean())
        except Exception as e:
            return 'VIOLATION: cleanup pass raised %s' % type(e).__name__
        deleted = [h for h in before_files if h not in files]
        rows = {}
        for h, status, mine in storage.db.conn.execute('select blob_hash, status, is_mine from blob').fetchall():
            rows[h] = (status, mine)
        for h in ref:
            kind, size, done = ref[h]
            if kind in ('private', 'sd-private'):
                if h in deleted or h not in rows:
                    return 'VIOLATION: deleted a blob the user published'
                if rows[h] != ('finished', 1):
                    return 'VIOLATION: a published blob is no longer recorded as the user\'s own finished blob'
        for h in deleted:
            if h in rows:
                return 'VIOLATION: a deleted blob is still listed in the database'
        for cls in (False, True):
            limit = network_limit if cls else content_limit
            mine = [h for h in deleted if (ref[h][0] == 'network') == cls]
            for h in mine:
                if h not in removable[cls]:
                    return 'VIOLATION: deleted a blob that is not a removable blob of the class'
            unlimited = (not cls) and limit == 0
            tag = ' (network class' if cls else ' (content class'
            if unlimited and mine:
                return 'VIOLATION: deleted although content storage is unlimited'
            if before[cls] <= limit and mine:
                return 'VIOLATION: deleted although usage is within the limit' + tag + ', pass %d)' % (p + 1)
            if not unlimited and before[cls] > limit:
                after = ref_usage_mb(ref, files, cls)
                left = [h for h in removable[cls] if h in files and not ref[h][0].startswith('sd-')]
                if after > limit and left:
                    return 'VIOLATION: stopped while still over the limit although removable blobs remained' + tag + ', pass %d)' % (p + 1)
                freed = [ref[h][1] // MB for h in mine]
                if freed and before[cls] - (sum(freed) - min(freed)) <= limit and min(freed) > 0 and len([f for f in freed if f > 0]) > 1 \
                        and before[cls] - (sum(freed) - max(freed)) <= limit:
                    return 'VIOLATION: deleted more than the excess plus one blob of whole-megabyte accounting' + tag + ', pass %d)' % (p + 1)
        if p > 0 and deleted and sufficed:
            return 'VIOLATION: a second pass deleted again although the first pass had brought usage within the limits'
        sufficed = True
        for cls in (False, True):
            limit = network_limit if cls else content_limit
            if (cls or limit != 0) and ref_usage_mb(ref, files, cls) > limit:
                sufficed = False
        if deleted:
            any_deleted = True
    return 'ok-deleted' if any_deleted else 'ok-nothing'


def sym_setup(vm, job):
    if job.get('family') == 'sql':
        from harness import C18
        C18.sym_setup(vm, job)


def native_setup(nvm, job):
    if job.get('family') == 'sql':
        from harness import C18
        return C18.native_setup(nvm, job)
    return None


def jobs(tier):
    out = []
    for passes in ((1,) if tier == 'quick' else (1, 2)):
        out.append(dict(name=f'clean-real-sql-{passes}-passes', family='sql', fn='clean_sql', args=(passes,), loop_bound=400, max_depth=80,
                        cost=5000 * passes,
                        bounds=dict(scenario='a published stream (2 blobs + descriptor, own), a downloaded stream (3 blobs + descriptor, the third '
                                    'optionally still pending), 0 / 2 / 3 network-seeded blobs, sizes 1.2-2 MiB; optionally a start with the blob '
                                    'directory missing followed by one with it restored', limits='0..12 MB symbolic, both classes',
                                    passes=passes, sql='executed by the real sqlite3 library on the real schema'),
                        must_reach=('ok-nothing', 'ok-deleted')))
    ks = [(0, 2), (1, 2), (2, 2), (3, 2)] if tier == 'quick' else [(0, 2), (1, 2), (2, 2), (3, 2), (4, 2), (5, 2), (6, 1), (3, 3)]
    for k, passes in ks:
        out.append(dict(name=f'clean-{k}-blobs-{passes}-passes', family='clean', fn='run', args=(k, passes), loop_bound=50,
                        max_depth=40, cost=10 ** k,
                        bounds=dict(removable_blobs_per_class=k, passes=passes, limits='0..10^6 MB symbolic',
                                    usage='symbolic < 2^50 bytes', blob_sizes='symbolic < 2^40 bytes'),
                        must_reach=('ok-nothing',) + (('ok-deleted',) if k else ())))
    out.append(dict(name='space-used', family='space', fn='space_used', args=(), loop_bound=50, max_depth=40, cost=1,
                    bounds=dict(usage='symbolic < 2^51 bytes per class'), must_reach=('ok',)))
    return out


def finding_key(job, verdict, inputs, named):
    import re
    return f'{job.get("family")}|{re.sub(r", pass [0-9]+", "", verdict)}'


def _drop_is_mine(node):
    import ast
    for n in ast.walk(node):
        if isinstance(n, ast.keyword) and n.arg == 'is_mine':
            n.value = ast.Constant(True)
            return True
    return False


def _ge_to_gt(node):
    import ast
    for n in ast.walk(node):
        if isinstance(n, ast.If) and isinstance(n.test, ast.Compare) and isinstance(n.test.ops[0], ast.GtE) \
                and isinstance(n.body[0], ast.Break):
            n.test.ops[0] = ast.Gt()
            return True
    return False


CANARIES = [
    dict(name='asks-for-own-blobs', target='lbry.blob.disk_space_manager:DiskSpaceManager._clean', mutate=_drop_is_mine,
         job=dict(family='clean', fn='run', args=(1, 1), loop_bound=50, max_depth=40)),
    dict(name='break-one-blob-late', target='lbry.blob.disk_space_manager:DiskSpaceManager._clean', mutate=_ge_to_gt,
         job=dict(family='clean', fn='run', args=(2, 1), loop_bound=50, max_depth=40)),
]
