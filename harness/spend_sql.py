"""C14 / C03 over the real wallet database: coin selection and reservation with every strategy - including `sqlite`, whose selection
and reservation happen inside one SQL transaction - on a real in-memory sqlite database that the real sync code has filled.

Everything that reaches sqlite is concrete: the amounts of the wallet's outputs and the payments come from small catalogues that
contain the sqlite chooser's band edges (10^4, 10^6, 10^8 dewies); the solver-chosen inputs are the catalogue choices, the
strategy, whether the funding transactions confirm (and are therefore saved again by the sync code) between two builds.  Reuses the
stand-ins of harness/C09.py (network, synchronous AIOSQLite over the real sqlite3, watch-only real Account)."""
from lbry.wallet.account import Account
from lbry.wallet.database import Database
from lbry.wallet.wallet import Wallet
from lbry.wallet.constants import COIN, NULL_HASH32
from lbry.wallet.transaction import Output
from lbry.wallet.coinselection import CoinSelector

from harness import C09, C03

UTXO_CATALOGUE = (50000, 10 ** 6, 10 ** 8)            # band edges of the sqlite chooser and values inside bands
PAY_CATALOGUE = (60000, 10 ** 8 - 20000, 15 * 10 ** 7)
ACCUMULATING = ('sqlite', None, 'standard', 'prefer_confirmed', 'only_confirmed')        # strategies that add outputs up until the payment is covered
STRATEGIES = ('sqlite', None, 'prefer_confirmed', 'only_confirmed', 'branch_and_bound', 'closest_match')


def reserved_rows(db):
    return set(r['txoid'] for r in db.db.conn.execute('select txoid from txo where is_reserved').fetchall())


def spend(vm, n_utxo, strategies):
    C09.VM[0] = vm
    C03.VM_REF[0] = vm            # the selector's Random stand-in (every shuffle outcome is a solver-chosen input)
    C09.GRAIN[0] = 0
    C09.PREEMPT[0] = None
    addresses, xpub, change = vm.wallet_addresses(C09.N_DEST + 2 * C09.GAP)
    amounts = [UTXO_CATALOGUE[vm.pick('utxo_amount', len(UTXO_CATALOGUE))] for _ in range(n_utxo)]
    spec = [(-1, [i % 2]) for i in range(n_utxo)]
    world = vm.build_world(spec, addresses, change, amounts)
    world['spends'] = [s for s, _ in spec]
    server = C09.Server(world)
    network = C09.Network(server)
    db = Database(':memory:')
    db.db = C09.SyncSQLite()
    db.db.conn.executescript(Database.CREATE_TABLES_QUERY)
    results = []
    ledger = C09.StubLedger(db, network, results)
    ledger.fee_per_byte = 50
    ledger._utxo_reservation_lock = C09.ModelLock()
    ledger.coin_selection_strategy = strategies[vm.pick('strategy', len(strategies))] if len(strategies) > 1 else strategies[0]
    account = Account.from_dict(ledger, Wallet(), {
        'public_key': xpub, 'address_generator': {'name': 'deterministic-chain', 'receiving': {'gap': C09.GAP, 'maximum_uses_per_address': 1},
                                                  'change': {'gap': 1, 'maximum_uses_per_address': 1}}})
    account.receiving.address_generator_lock = C09.ModelLock()
    account.change.address_generator_lock = C09.ModelLock()
    ledger.add_account(account)

    def run_updates():
        C09.SCHED[0] = C09.SeqSched(vm, False)
        C09.SCHED[0].reverse = 0
        C09.notify(vm, network, ledger, results, False)
        C09.SCHED[0].run_all()
        C09.SCHED[0] = None

    C09.SCHED[0] = C09.SeqSched(vm, False)
    C09.SCHED[0].reverse = 0
    C09.SCHED[0].spawn(C09.first_addresses, [vm, account])
    C09.SCHED[0].run_all()
    for a in network.subscribed:
        network.told[a] = None
    confirmed_at_first = vm.pick('confirmed_before_the_first_build', 2)
    server.n, server.confirmed = n_utxo, (n_utxo if confirmed_at_first else 0)
    run_updates()
    if confirmed_at_first:
        db.db.conn.execute('update tx set is_verified=1')              # the headers stand-in verifies nothing; the chooser prefers verified
    fee = Output.pay_pubkey_hash(COIN, NULL_HASH32).get_fee(ledger)
    in_flight = []               # selections of builds not yet broadcast or abandoned
    confirmed_now = bool(confirmed_at_first)
    held = set()
    n_builds = 2
    for b in range(n_builds):
        pay = PAY_CATALOGUE[vm.pick('payment', len(PAY_CATALOGUE))]
        all_utxos = vm.await_(account.get_utxos())
        free = [t for t in all_utxos if t.id not in held]
        try:
            selection = vm.await_(ledger.get_spendable_utxos(pay, [account]))
        except Exception as e:
            if C09.DEBUG:
                raise
            return 'VIOLATION: coin selection raised %s' % type(e).__name__
        ids = [s.txo.id for s in selection]
        if len(ids) != len(set(ids)):
            return 'VIOLATION: one selection holds the same output twice'
        for i in ids:
            if i in held:
                return 'VIOLATION: an output held by a build in flight was handed to another build'
            if i not in [t.id for t in all_utxos]:
                return 'VIOLATION: selected something that is not an unspent output of the wallet'
        if selection:
            if sum(s.effective_amount for s in selection) < pay + fee and ledger.coin_selection_strategy != 'sqlite':
                return 'VIOLATION: the selection does not cover the payment'
            if sum(s.txo.amount for s in selection) < pay:
                return 'VIOLATION: the selection does not cover the payment'
        elif ledger.coin_selection_strategy in ACCUMULATING:
            # (branch_and_bound and closest_match look for one exact / one single covering output and may legitimately find none)
            usable = [t for t in free if ledger.coin_selection_strategy != 'only_confirmed' or confirmed_now]
            worth = sum(max(0, t.get_estimator(ledger).effective_amount) for t in usable)
            if worth >= pay + fee + 20000:
                return 'VIOLATION: nothing selected although the free outputs cover the payment'
        held.update(ids)
        in_flight.append(selection)
        if reserved_rows(db) != held:
            return 'VIOLATION: the outputs marked reserved in the database are not exactly those held by builds in flight'
        if b == 0 and not confirmed_at_first and vm.pick('funding_confirms_between_the_builds', 2):
            # the server reports new heights: the sync code saves the funding transactions again while build 1 is in flight
            server.confirmed = n_utxo
            confirmed_now = True
            run_updates()
            if reserved_rows(db) != held:
                return 'VIOLATION: syncing a transaction again dropped the reservation of an output held by a build in flight'
    # the first build is abandoned, the second broadcast (its outputs stay reserved until the spend is seen)
    vm.await_(ledger.release_outputs([s.txo for s in in_flight[0]]))
    held.difference_update([s.txo.id for s in in_flight[0]])
    if reserved_rows(db) != held:
        return 'VIOLATION: releasing an abandoned build did not free exactly its outputs'
    return 'ok-both-funded' if (in_flight[0] and in_flight[1]) else 'ok'
