"""C16 - LBRY URLs parse and print without loss; forbidden strings are rejected; the byte envelopes around claim /
support / purchase messages round-trip (the protobuf messages themselves are opaque).

Interpreted from /repo: URL.parse, URL.__str__, URL.parts, PathSegment.__str__; the regular expression is the module's own
URL_REGEX (built by the real _create_url_regex at import) interpreted by the symbolic matcher over symbolic code points;
Signable.to_bytes / from_bytes and Purchase.to_bytes / from_bytes / has_start_byte over an opaque message."""
from google.protobuf.message import DecodeError

from lbry.schema.purchase import Purchase
from lbry.schema.url import URL, PathSegment

from harness.C04 import envelope_parse, FakeMessage      # noqa: F401  (the Signable envelope job is shared with C04)

LEVEL_TEXT = ('Bounded model checking of the real URL parser/printer: every string of up to N arbitrary Unicode code points, '
              'and every URL of each grammar shape with symbolic characters in every name / claim-id / sequence position, is '
              'run through the real URL.parse (the module\'s own regular expression, matched symbolically); acceptance and the '
              'extracted parts are compared with an independent hand-written recogniser of the spec grammar, and '
              'parse(str(parse(u))) = parse(u), str(parse(u)) = u for canonical u are solver-checked.  The envelopes: every byte '
              'string format-byte || [20-byte channel hash || 64-byte signature] || message parses (Signable.from_bytes) iff the '
              'format byte is 0 or 1, into exactly those fields, and serialises back to the same bytes; a purchase parses iff it '
              'starts with "P".')
LEVEL_NOTE = ('Trusted: z3, the interpreter and its symbolic regex matcher (each path witness is replayed natively with the real '
              '`re`), the reference recogniser.  Outside (not encodable here): the claim/support/purchase protobuf half of the '
              'property - typed accessors and legacy decoders execute inside the protobuf runtime over generated descriptors.')
ASSUMPTIONS = ['URL jobs: no stubs - the regular expression, string formatting and tuple equality are modelled and replayed natively',
               'envelope jobs: the protobuf message is a stand-in whose SerializeToString / ParseFromString store an opaque byte string']
OUTSIDE = ['claim, support and purchase field encode/decode and legacy claim encodings (protobuf runtime)', 'URLs longer than the shape bounds',
           'unicode normalisation of names (normalize_name)']

FORBIDDEN = '=&#:$@%?;"/\\<>{}|^~`[]'


def name_char(vm, c):
    o = ord(c)
    facts = [o > 0x20, vm.not_(vm.all_of([o >= 0xD800, o <= 0xDFFF])), o != 0xFFFE, o != 0xFFFF]
    for f in FORBIDDEN:
        facts.append(o != ord(f))
    return vm.all_of(facts)


def hex_char(vm, c):
    o = ord(c)
    return vm.any_of([vm.all_of([o >= 48, o <= 57]), vm.all_of([o >= 97, o <= 102])])


def digit_char(vm, c, lo):
    o = ord(c)
    return vm.all_of([o >= lo, o <= 57])


def ref_segment(vm, s, i, channel):
    """Reference: one path segment starting at s[i]; returns (name, claim_id, amount_order, next index) or None."""
    n = len(s)
    start = i
    if channel:
        if i >= n or s[i] != '@':
            return None
        i += 1
    j = i
    while j < n and name_char(vm, s[j]):
        j += 1
    if j == i:
        return None
    name = s[start:j]
    i = j
    if i < n and (s[i] == ':' or s[i] == '#'):
        j = i + 1
        while j < n and j - i - 1 < 40 and hex_char(vm, s[j]):
            j += 1
        if j > i + 1:
            return name, s[i + 1:j], None, j
        return name, None, None, i
    if i < n and s[i] == '$':
        j = i + 1
        if j < n and digit_char(vm, s[j], 49):
            j += 1
            while j < n and digit_char(vm, s[j], 48):
                j += 1
            return name, None, s[i + 1:j], j
        return name, None, None, i
    return name, None, None, i


def ref_parse(vm, s):
    """Reference recogniser of the spec grammar: (stream, channel) as tuples, or None."""
    i = 0
    if len(s) >= 7 and s[:7] == 'lbry://':
        i = 7
    n = len(s)
    if i < n and s[i] == '@':
        ch = ref_segment(vm, s, i, True)
        if ch is None:
            return None
        if ch[3] == n:
            return None, ch[:3]
        if s[ch[3]] == '/':
            st = ref_segment(vm, s, ch[3] + 1, False)
            if st is not None and st[3] == n:
                return st[:3], ch[:3]
        return None
    st = ref_segment(vm, s, i, False)
    if st is None or st[3] != n:
        return None
    return st[:3], None


def seg_tuple(seg):
    if seg is None:
        return None
    return (seg.name, seg.claim_id, seg.amount_order)


def check_url(vm, s):
    want = ref_parse(vm, s)
    try:
        url = URL.parse(s)
    except ValueError:
        if want is not None:
            return 'VIOLATION: syntactically valid URL rejected'
        return 'ok-rejected'
    if want is None:
        return 'VIOLATION: a string the grammar forbids is accepted'
    if (seg_tuple(url.stream), seg_tuple(url.channel)) != want:
        return 'VIOLATION: parsed name / claim id / sequence parts differ from the grammar'
    printed = str(url)
    try:
        again = URL.parse(printed)
    except ValueError:
        return 'VIOLATION: the printed form of a parsed URL does not parse'
    if again != url:
        return 'VIOLATION: parse(str(parse(u))) differs from parse(u)'
    canonical = len(s) >= 7 and s[:7] == 'lbry://'
    for c in s:
        if c == '#':
            canonical = False
    if canonical and printed != s:
        return 'VIOLATION: a canonical URL does not print back to itself'
    return 'ok-accepted'


def any_string(vm, n):
    return check_url(vm, vm.new_str('u', n))


def shaped(vm, shape):
    """A URL of a fixed grammar shape; letters in the shape are symbolic characters: n = any code point (name position),
    h = hex position, d = digit position; everything else is literal."""
    out = ''
    for c in shape:
        if c in 'nhd':
            out = out + vm.new_str(c, 1)
        else:
            out = out + c
    return check_url(vm, out)


SHAPES = ['lbry://nn', 'lbry://@nn', 'lbry://@n/n', 'lbry://n:hh', 'lbry://n#hh', 'lbry://n$dd', 'lbry://@n:h/n$d', 'lbry://@n$d/n#h',
          '@n/n', 'n:h', 'lbry://n:' + '0123456789abcdef' * 2 + '0123456h', 'lbry://n:' + '0123456789abcdef' * 2 + '01234567h',
          'lbry://n\n', 'lbry://@n/n\n', 'lbry://n$d\n', 'lbry://n:h\n']


class StubPurchase(Purchase):
    __slots__ = ()

    def __init__(self, claim_id=None):
        self.message = FakeMessage()


def purchase_envelope(vm):
    first = vm.new_int('start_byte', 0, 255)
    message = vm.new_run('message', 0, 2 ** 16)
    data = (first.to_bytes(1, 'little') + message) if vm.new_bool('non_empty') else b''
    try:
        p = StubPurchase.from_bytes(data)
    except DecodeError:
        if len(data) > 0 and first == ord('P') and data[0] == ord('P'):
            return 'VIOLATION: purchase data starting with "P" is refused'
        return 'ok-refused'
    except Exception as e:
        return 'VIOLATION: parsing purchase data raised %s' % type(e).__name__
    if len(data) == 0 or data[0] != ord('P'):
        return 'VIOLATION: purchase data that does not start with "P" is accepted'
    if p.to_message_bytes() != data[1:]:
        return 'VIOLATION: the purchase message is not everything after the start byte'
    if p.to_bytes() != data or bytes(p) != data or len(p) != len(data):
        return 'VIOLATION: a purchase does not serialise back to the same bytes'
    return 'ok-parsed'


def jobs(tier):
    out = []
    out.append(dict(name='signable-envelope', family='envelope', fn='envelope_parse', args=(), loop_bound=200, max_depth=60, cost=50,
                    bounds=dict(format_byte='0..255', message='opaque, any length < 2^16'),
                    must_reach=('ok-unsigned', 'ok-signed', 'ok-refused')))
    out.append(dict(name='purchase-envelope', family='envelope', fn='purchase_envelope', args=(), loop_bound=200, max_depth=60, cost=50,
                    bounds=dict(start_byte='0..255 or absent', message='opaque, any length < 2^16'), must_reach=('ok-parsed', 'ok-refused')))
    nmax = 8 if tier == 'quick' else 10
    for n in range(0, nmax + 1):
        out.append(dict(name=f'any-string-{n}', family='any', fn='any_string', args=(n,), loop_bound=200, max_depth=60, cost=30 ** n,
                        bounds=dict(code_points=n, alphabet='every code point 0..0x10FFFF')))
    for shape in SHAPES:
        out.append(dict(name='shape-' + shape.replace('\n', '<LF>').replace('/', '_'), family='shape', fn='shaped', args=(shape,),
                        loop_bound=200, max_depth=60, cost=500,
                        bounds=dict(shape=shape.replace('\n', '<LF>'), legend='n = any code point, h = any code point in a claim-id '
                                    'position, d = any code point in a sequence position')))
    return out


def finding_key(job, verdict, inputs, named):
    return f'{job.get("family")}|{verdict}'


def _mutate_regex(find, repl):
    def mutate(node):
        import lbry.schema.url as u
        if find not in u.URL_REGEX:
            return False
        u.URL_REGEX = u.URL_REGEX.replace(find, repl)
        return True
    return mutate


CANARIES = [
    dict(name='claim-id-41-hex-digits', target='lbry.schema.url:URL.parse', mutate=_mutate_regex('{1,40}', '{1,41}'),
         job=dict(family='shape', fn='shaped', args=('lbry://n:' + '0123456789abcdef' * 2 + '01234567h',), loop_bound=200, max_depth=60)),
    dict(name='sequence-may-start-with-zero', target='lbry.schema.url:URL.parse', mutate=_mutate_regex('[1-9][0-9]*', '[0-9]+'),
         job=dict(family='shape', fn='shaped', args=('lbry://n$dd',), loop_bound=200, max_depth=60)),
]
