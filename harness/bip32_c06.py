"""C06, structural half: BIP32 derivation and extended-key layout of lbry/wallet/bip32.py under ideal primitives.

The elliptic-curve library (coincurve) is replaced by an *ideal curve*: a private key is an integer 0 < k < N, its public
key is P(k) for an ideal injective function P, `add(L)` is k + L mod N (so P(k).add(L) = P(k + L) holds by construction -
that homomorphism is the one fact about secp256k1 the property relies on).  HMAC-SHA512 and hash160 are ideal functions.
What is checked is everything the wallet's own code decides: which bytes are fed to the HMAC, hardened vs normal
branching, index and depth bookkeeping, fingerprints, the 78-byte extended-key layout and its parser."""
import hashlib

from lbry.wallet import bip32 as B
from lbry.wallet.bip32 import PrivateKey, PublicKey, _from_extended_key, from_extended_key_string

N = 2 ** 256       # the ideal curve accepts every non-zero 32-byte secret (secp256k1's order is slightly smaller; which secrets
                   # the curve library rejects is not the wallet's code, and comparing 256-bit sums with that constant stalls z3)
ENV = [None]


class IdealPub:
    """Stand-in for coincurve.PublicKey."""

    def __init__(self, data=None, k=None):
        self.k = k
        self.raw = data

    def format(self, compressed=True):
        if self.k is not None:
            return ENV[0].pub(self.k.to_bytes(32, 'big'))
        return self.raw

    def add(self, scalar):
        if self.k is None:
            raise NotImplementedError('ideal curve: tweak of a public key whose private key is unknown')
        t = int.from_bytes(scalar, 'big')
        if t >= N:
            raise ValueError('invalid tweak')
        return IdealPub(k=ENV[0].add(self.k, t))

    def point(self):
        return ('point-of', self.format(True))


class IdealPriv:
    """Stand-in for coincurve.PrivateKey."""

    def __init__(self, secret=None, k=None):
        if k is None:
            k = int.from_bytes(secret, 'big')
        if not 0 < k < N:
            raise ValueError('secret out of range')
        self.k = k
        self.secret = k.to_bytes(32, 'big')
        self.public_key = IdealPub(k=k)

    @classmethod
    def from_int(cls, num):
        return cls(k=num)

    def to_int(self):
        return self.k

    def add(self, scalar):
        t = int.from_bytes(scalar, 'big')
        if t >= N:
            raise ValueError('invalid tweak')
        return IdealPriv(k=ENV[0].add(self.k, t))


class B58Token:
    def __init__(self, payload):
        self.payload = payload


class StubBase58:
    """encode_check / decode_check as an opaque inverse pair (the codec itself is the other half of C06)."""

    @staticmethod
    def encode_check(payload):
        return B58Token(payload)

    @staticmethod
    def decode_check(token):
        return token.payload


class StubLedger:
    extended_public_key_prefix = bytes.fromhex('0488b21e')
    extended_private_key_prefix = bytes.fromhex('0488ade4')

    def public_key_to_address(self, pubkey_bytes):
        return ('address-of', pubkey_bytes)


class SymEnv:
    __symvm_native__ = True                 # plumbing: runs natively, talks to the VM through its API

    def __init__(self, vm):
        from symvm.ideal import IdealFn
        self.vm = vm
        self.pub_fn = IdealFn(vm, 'curve_point', 33, injective=True, bv=False)
        self.h160_fn = IdealFn(vm, 'hash160', 20, injective=True, bv=False)

    def hmac(self, key, msg):
        """Ideal HMAC-SHA512: the two 32-byte halves of a new output are the big-endian bytes of two fresh 256-bit integers
        (the code converts them with int.from_bytes / to_bytes, which then cancel syntactically), different from every
        256-bit value seen so far (random-oracle freshness)."""
        from symvm import models
        vm = self.vm
        table = vm.path_cache.setdefault(('bip32', 'hmac'), [])
        ints = vm.path_cache.setdefault(('bip32', 'ints'), [])
        for pk, pm, out in table:
            if len(pk) == len(key) and len(pm) == len(msg) and vm.truth(vm.eq(pk, key)) and vm.truth(vm.eq(pm, msg)):
                return out
        n = len(table)
        import ast
        il = vm._fresh_int('hmac%d_left' % n, 0, 2 ** 256 - 1)
        ir = vm._fresh_int('hmac%d_right' % n, 0, 2 ** 256 - 1)
        for other in ints:
            vm.assume(vm.all_of([vm.not_(vm.eq(il, other)), vm.not_(vm.eq(ir, other))]))
        vm.assume(vm.not_(vm.eq(il, ir)))
        ints.extend([il, ir])
        out = vm.binop(ast.Add(), models.im_to_bytes(vm, il, [32, 'big'], {}), models.im_to_bytes(vm, ir, [32, 'big'], {}))
        table.append((key, msg, out))
        return out

    def add(self, k, t):
        """Group addition k + t mod N as an ideal function: a fresh value in (0, N) per new pair of arguments, different from
        every 256-bit value seen so far (the tweaked key is never 0 and never collides: probability 2^-127 otherwise)."""
        from symvm.sv import zint
        vm = self.vm
        table = vm.path_cache.setdefault(('bip32', 'add'), {})
        key = (zint(k).tid if hasattr(zint(k), 'tid') else zint(k), zint(t).tid if hasattr(zint(t), 'tid') else zint(t))
        if key in table:
            return table[key]
        ints = vm.path_cache.setdefault(('bip32', 'ints'), [])
        r = vm._fresh_int('sum%d' % len(table), 1, N - 1)
        for other in ints:
            vm.assume(vm.not_(vm.eq(r, other)))
        ints.append(r)
        table[key] = r
        return r

    def pub(self, secret):
        out = self.pub_fn(secret)
        parity = self.vm.path_cache.get(('bip32', 'parity'))
        if parity is None:
            parity = self.vm.path_cache[('bip32', 'parity')] = 2 + self.vm.pick('point_prefix', 2)
        self.vm.assume(self.vm.eq(self.vm.getitem(out, 0), parity))      # a compressed point starts with 02 or 03 (one choice per path)
        return out

    def hash160(self, data):
        return self.h160_fn(data)


class NativeEnv:
    def __init__(self, nvm):
        self.nvm = nvm
        self.parity = None

    def add(self, k, t):
        return (k + t) % N

    def hmac(self, key, msg):
        from lbry.crypto.hash import hmac_sha512
        return hmac_sha512(bytes(key), bytes(msg))

    def pub(self, secret):
        if self.parity is None:
            self.parity = 2 + self.nvm.pick('point_prefix', 2)
        return bytes([self.parity]) + hashlib.sha256(b'ideal curve point of ' + bytes(secret)).digest()

    def hash160(self, data):
        from lbry.crypto.hash import hash160
        return hash160(bytes(data))


def ref_child(k, c, n):
    """BIP32 CKDpriv on the ideal curve: (child secret, child chain code) or None when the index yields no key."""
    env = ENV[0]
    if n >= 2 ** 31:
        data = b'\x00' + k.to_bytes(32, 'big') + n.to_bytes(4, 'big')
    else:
        data = env.pub(k.to_bytes(32, 'big')) + n.to_bytes(4, 'big')
    i = env.hmac(c, data)
    il = int.from_bytes(i[:32], 'big')
    return il, env.add(k, il), i[32:]


def ref_extended(prefix, depth, parent_fp, n, c, keydata):
    return prefix + bytes([depth]) + parent_fp + n.to_bytes(4, 'big') + c + keydata


def derive(vm, seed_len, depth):
    """from_seed, then `depth` child derivations with symbolic indices (hardened or not): everything the wallet reports about
    each key equals the reference; the public-only derivation of a normal child gives the same public key."""
    env = ENV[0]
    ledger = StubLedger()
    seed = vm.new_bytes('seed', seed_len)
    i0 = env.hmac(b'Bitcoin seed', seed)
    k = int.from_bytes(i0[:32], 'big')
    c = i0[32:]
    vm.assume(vm.all_of([k > 0, k < N]))                       # otherwise the seed is invalid (probability 2^-127)
    try:
        key = PrivateKey.from_seed(ledger, seed)
    except Exception as e:
        return 'VIOLATION: from_seed raised %s' % type(e).__name__
    parent_fp = b'\x00' * 4
    n = 0
    for d in range(depth + 1):
        if d > 0:
            n = vm.new_int('index', 0, 2 ** 32 - 1)
            il, kc, cc = ref_child(k, c, n)
            vm.assume(vm.all_of([il > 0, il < N]))             # BIP32: otherwise the index has no key (probability 2^-127)
            parent_fp = env.hash160(env.pub(k.to_bytes(32, 'big')))[:4]
            parent = key
            try:
                key = parent.child(n)
            except Exception as e:
                return 'VIOLATION: child(%s) raised %s' % ('hardened' if n >= 2 ** 31 else 'normal', type(e).__name__)
            if n < 2 ** 31:
                try:
                    pub_only = parent.public_key.child(n)
                except Exception as e:
                    return 'VIOLATION: public derivation of a normal child raised %s' % type(e).__name__
                if pub_only.pubkey_bytes != env.pub(kc.to_bytes(32, 'big')) or pub_only.chain_code != cc \
                        or pub_only.n != n or pub_only.depth != d:
                    return 'VIOLATION: the child derived from the public key alone is not the public key of the private child'
            else:
                try:
                    parent.public_key.child(n)
                    return 'VIOLATION: a hardened child was derived from a public key'
                except ValueError:
                    pass
            k, c = kc, cc
        secret = k.to_bytes(32, 'big')
        point = env.pub(secret)
        if key.private_key_bytes != secret or key.secret_exponent() != k:
            return 'VIOLATION: private key differs from BIP32 at depth %d' % d
        if key.chain_code != c:
            return 'VIOLATION: chain code differs from BIP32 at depth %d' % d
        if key.n != n or key.depth != d:
            return 'VIOLATION: child number / depth bookkeeping differs at depth %d' % d
        if key.public_key.pubkey_bytes != point:
            return 'VIOLATION: public key differs from BIP32 at depth %d' % d
        if key.public_key.chain_code != c or key.public_key.n != n or key.public_key.depth != d:
            return 'VIOLATION: the public twin carries another chain code / number / depth'
        if key.fingerprint() != env.hash160(point)[:4] or key.identifier() != env.hash160(point):
            return 'VIOLATION: identifier / fingerprint is not hash160 of the public key'
        if key.parent_fingerprint() != parent_fp or key.public_key.parent_fingerprint() != parent_fp:
            return 'VIOLATION: parent fingerprint differs from BIP32 at depth %d' % d
        xprv = ref_extended(ledger.extended_private_key_prefix, d, parent_fp, n, c, b'\x00' + secret)
        xpub = ref_extended(ledger.extended_public_key_prefix, d, parent_fp, n, c, point)
        if key.extended_key() != xprv:
            return 'VIOLATION: extended private key layout differs from BIP32 at depth %d' % d
        if key.public_key.extended_key() != xpub:
            return 'VIOLATION: extended public key layout differs from BIP32 at depth %d' % d
        if key.public_key.address[1] != point:
            return 'VIOLATION: the address is not derived from the public key'
        # parse back (through the string form; the Base58Check codec is an opaque inverse pair here)
        try:
            back = from_extended_key_string(ledger, key.extended_key_string())
            pback = from_extended_key_string(ledger, key.public_key.extended_key_string())
        except Exception as e:
            return 'VIOLATION: an extended key string does not parse back (%s)' % type(e).__name__
        if not isinstance(back, PrivateKey) or back.private_key_bytes != secret or back.chain_code != c or back.n != n \
                or back.depth != d:
            return 'VIOLATION: extended private key differs after the round trip'
        if not isinstance(pback, PublicKey) or pback.pubkey_bytes != point or pback.chain_code != c or pback.n != n \
                or pback.depth != d:
            return 'VIOLATION: extended public key differs after the round trip'
    return 'ok'


def bad_index(vm):
    """Child numbers outside 0..2^32-1 (private) / 0..2^31-1 (public) are refused."""
    env = ENV[0]
    ledger = StubLedger()
    seed = vm.new_bytes('seed', 16)
    i0 = env.hmac(b'Bitcoin seed', seed)
    vm.assume(vm.all_of([int.from_bytes(i0[:32], 'big') > 0, int.from_bytes(i0[:32], 'big') < N]))
    key = PrivateKey.from_seed(ledger, seed)
    n = vm.new_int('index', -3, 2 ** 32 + 3)
    if 0 <= n < 2 ** 32:
        return 'ok-in-range'
    try:
        key.child(n)
    except ValueError:
        try:
            key.public_key.child(n)
        except ValueError:
            return 'ok-refused'
        return 'VIOLATION: public derivation accepts a child number outside 0..2^31-1'
    except Exception as e:
        return 'VIOLATION: child number out of range raised %s' % type(e).__name__
    return 'VIOLATION: private derivation accepts a child number outside 0..2^32-1'


def parse_extended(vm):
    """_from_extended_key on every 78-byte string (and other lengths): accepted iff BIP32 says it is an extended key."""
    ledger = StubLedger()
    length = (77, 78, 79)[vm.pick('length', 3)]
    raw = vm.new_bytes('ekey', length)
    is_pub = raw[:4] == ledger.extended_public_key_prefix
    is_priv = raw[:4] == ledger.extended_private_key_prefix
    try:
        key = _from_extended_key(ledger, raw)
    except ValueError:
        if length == 78 and is_pub and (raw[45] == 2 or raw[45] == 3):
            return 'VIOLATION: a well-formed extended public key is refused'
        k = int.from_bytes(raw[46:78], 'big') if length == 78 else 0
        if length == 78 and is_priv and raw[45] == 0 and 0 < k < N:
            return 'VIOLATION: a well-formed extended private key is refused'
        return 'ok-refused'
    except Exception as e:
        return 'VIOLATION: parsing an extended key raised %s' % type(e).__name__
    if length != 78:
        return 'VIOLATION: an extended key of the wrong length is accepted'
    if key.depth != raw[4] or key.n != int.from_bytes(raw[9:13], 'big') or key.chain_code != raw[13:45]:
        return 'VIOLATION: depth / child number / chain code are read from the wrong bytes'
    if isinstance(key, PublicKey):
        if not is_pub or key.pubkey_bytes != raw[45:78]:
            return 'VIOLATION: an extended public key is parsed from the wrong bytes'
        return 'ok-public'
    if not is_priv or raw[45] != 0 or key.private_key_bytes != raw[46:78]:
        return 'VIOLATION: an extended private key is parsed from the wrong bytes'
    return 'ok-private'


def patch():
    saved = (B.cPrivateKey, B.cPublicKey, B.Base58)
    B.cPrivateKey, B.cPublicKey, B.Base58 = IdealPriv, IdealPub, StubBase58
    return saved


def sym_setup(vm, job):
    env = SymEnv(vm)
    ENV[0] = env
    patch()
    vm.models[id(B.hmac_sha512)] = lambda vm_, a, k: env.hmac(*a)
    vm.models[id(B.hash160)] = lambda vm_, a, k: env.hash160(*a)


class Native:
    def __init__(self, nvm):
        self.nvm = nvm

    def __enter__(self):
        self.saved = patch()
        self.env = ENV[0]
        ENV[0] = NativeEnv(self.nvm)

    def __exit__(self, *a):
        B.cPrivateKey, B.cPublicKey, B.Base58 = self.saved
        ENV[0] = self.env


def jobs(tier):
    out = []
    for seed_len, depth in (((16, 1), (64, 2)) if tier == 'quick' else ((16, 1), (16, 2), (32, 3), (64, 2), (64, 4))):
        out.append(dict(name=f'bip32-derive-seed{seed_len}-depth{depth}', family='bip32', fn='derive', args=(seed_len, depth),
                        loop_bound=200, max_depth=60, cost=300 * 4 ** depth, query_timeout_ms=30000,
                        bounds=dict(seed_bytes=seed_len, path_depth=depth, indices='every 32-bit index, hardened or normal'),
                        must_reach=('ok',)))
    out.append(dict(name='bip32-bad-index', family='bip32', fn='bad_index', args=(), loop_bound=200, max_depth=60, cost=50,
                    bounds=dict(index='-3..2^32+3'), must_reach=('ok-refused', 'ok-in-range')))
    out.append(dict(name='bip32-parse-extended', family='bip32', fn='parse_extended', args=(), loop_bound=200, max_depth=60, cost=200,
                    bounds=dict(bytes='every string of 77, 78, 79 bytes'),
                    must_reach=('ok-refused', 'ok-public', 'ok-private')))
    return out
