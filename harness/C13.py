"""C13 - wallet secrets: encryption round trip, wrong password refused, atomic save.

Interpreted from /repo: WalletStorage.write (on a model file system with a symbolic crash point), Account.{encrypt,
decrypt,_decrypt_seed,_decrypt_private_key_string,get_init_vector,to_dict (secret fields)}, Wallet.{lock,unlock,save,
to_dict,is_locked,is_encrypted} on account objects that borrow the real methods; AES is an ideal cipher."""
import json
import os

from lbry.error import InvalidPasswordError
from lbry.wallet.account import Account
from lbry.wallet.bip32 import PrivateKey
from lbry.wallet.wallet import Wallet, WalletStorage, ENCRYPT_ON_DISK

LEVEL_TEXT = ('Bounded model checking of the real save and lock/unlock code: (a) WalletStorage.write runs on a model file system '
              'in which the process may die before or inside any file-system operation (symbolic crash index, a torn write '
              'leaves a symbolic prefix) - after the crash the file at the wallet path must be byte-for-byte the old or the new '
              'JSON; (b) accounts with symbolic secrets are locked and unlocked with symbolic passwords (equal or different, '
              'decided by the solver) under an ideal cipher, checking exact restoration, refusal without change, and that a '
              'save with encryption enabled writes no plaintext secret.')
LEVEL_NOTE = ('Trusted: z3, the interpreter (paths replayed natively with the same stubs), the model file system (POSIX: rename is '
              'atomic; fsync makes written data durable), the ideal cipher stub.  Outside: AES/scrypt themselves, power loss as '
              'opposed to process death, Account construction from real BIP32 keys (C06), sync payloads (pack/unpack).')
ASSUMPTIONS = [
    'model file system: open(w) truncates then appends, a crash inside write() leaves any prefix; os.replace always replaces '
    'atomically, os.rename atomically replaces on POSIX and refuses an existing target in the Windows-semantics job',
    'ideal cipher: aes_decrypt(k, aes_encrypt(k, m, iv)) = (m, iv); with another key it raises InvalidPasswordError or returns '
    'text that is neither a valid mnemonic nor a valid extended key (solver\'s choice)',
    'a wallet whose accounts are all watch-only holds no secret: any password "unlocks" it, which is not counted',
    'account objects are stand-ins that borrow the real Account methods; private keys are stand-ins for PrivateKey whose '
    'extended_key_string() is an opaque token',
]
OUTSIDE = ['AES / scrypt / PBKDF2', 'power-loss durability', 'Wallet.pack/unpack sync payloads', 'real BIP32 key objects']

VM = [None]
WALLET_PATH = '/nonexistent-symvm-model-fs/wallets/wallet'      # only ever exists in the model file system


class Crash(BaseException):
    """The process dies here."""


class ModelFS:
    def __init__(self, vm, crash_at):
        self.vm = vm
        self.files = {}
        self.modes = {}
        self.ops = 0
        self.crash_at = crash_at
        self.rename_fails = False
        self.log = []
        self.fds = {}

    def step(self, what):
        """One file-system operation is about to take effect."""
        self.log.append(what)
        if self.ops == self.crash_at:
            raise Crash()
        self.ops += 1


class FileW:
    def __init__(self, fs, path):
        self.fs, self.path = fs, path
        self.name = path

    def __enter__(self):
        return self

    def __exit__(self, *a):
        return False

    def close(self):
        return None

    def read(self):
        return self.fs.files[self.path]

    def write(self, data):
        fs = self.fs
        if isinstance(data, (bytes, bytearray)):
            data = bytes(data).decode()
        fs.log.append('write')
        if fs.ops == fs.crash_at:
            k = fs.vm.pick('torn_at', len(data) + 1)      # a torn write leaves any prefix
            fs.files[self.path] = fs.files[self.path] + data[:k]
            raise Crash()
        fs.ops += 1
        fs.files[self.path] = fs.files[self.path] + data

    def flush(self):
        return None

    def fileno(self):
        return 7


def atomic_write(vm, has_old, rename_fails):
    """WalletStorage.write with a crash before/inside any file-system operation."""
    VM[0] = vm
    fs = vm.model_fs(vm.new_int('crash_at', 0, 12))
    fs.rename_fails = rename_fails
    old = json.dumps({'accounts': ['OLD'], 'name': 'w', 'preferences': {}, 'version': 1}, indent=4, sort_keys=True)
    new_dict = {'version': 1, 'name': 'w', 'preferences': {}, 'accounts': ['NEW-A', 'NEW-B']}
    new = json.dumps(new_dict, indent=4, sort_keys=True)
    if has_old:
        fs.files[WALLET_PATH] = old
        fs.modes[WALLET_PATH] = 0o600
    storage = WalletStorage(WALLET_PATH)
    crashed = False
    try:
        storage.write(new_dict)
    except Crash:
        crashed = True
    except Exception as e:
        return 'VIOLATION: WalletStorage.write raised %s' % type(e).__name__
    on_disk = fs.files.get(WALLET_PATH)
    if not crashed:
        if on_disk != new:
            return 'VIOLATION: after a completed save the wallet file is not the new content'
        return 'ok-saved'
    if on_disk is None:
        if has_old:
            return 'VIOLATION: a crash during save left no wallet file at all (last operation: %s)' % fs.log[-1]
        return 'ok-crash-no-file-yet'
    if on_disk == new:
        return 'ok-crash-new'
    if has_old and on_disk == old:
        return 'ok-crash-old'
    return 'VIOLATION: a crash during save left a partial wallet file (last operation: %s)' % fs.log[-1]


# ------------------------------------------------------------------------------------------------ (b) secrets
class Enc:
    """aes_encrypt(password, plaintext, iv) under the ideal cipher."""

    def __init__(self, password, plaintext, iv):
        self.password, self.plaintext, self.iv = password, plaintext, iv

    def __bool__(self):
        return True


class Garbage:
    """What a wrong key decrypts to when the padding happens to be valid: never a mnemonic, never an extended key."""

    def __bool__(self):
        return True


class FakeKey(PrivateKey):
    def __init__(self, token):
        self.token = token

    def extended_key_string(self):
        return self.token


class FakePub:
    def extended_key_string(self):
        return 'xpub-token'


class FakeChannelKeys:
    async def ensure_cache_primed(self):
        return None


class FakeGen:
    name = 'deterministic-chain'

    def to_dict(self, a, b):
        return {'name': 'deterministic-chain'}


class FakeLedger:
    def get_id(self):
        return 'lbc_mainnet'


class StubAccount:
    """Stand-in for Account: the secret-handling methods are the real ones."""
    encrypt = Account.encrypt
    decrypt = Account.decrypt
    _decrypt_seed = Account._decrypt_seed
    _decrypt_private_key_string = Account._decrypt_private_key_string
    get_init_vector = Account.get_init_vector
    to_dict = Account.to_dict

    def __init__(self, name, seed, key_token):
        self.name = name
        self.ledger = FakeLedger()
        self.seed = seed
        self.private_key_string = ''
        self.private_key = FakeKey(key_token) if key_token else None
        self.public_key = FakePub()
        self.encrypted = False
        self.init_vectors = {}
        self.address_generator = FakeGen()
        self.receiving = None
        self.change = None
        self.modified_on = 1
        self.channel_keys = {}
        self.deterministic_channel_keys = FakeChannelKeys()


def stub_aes_encrypt(password, plaintext, iv=None):
    return Enc(password, plaintext, iv)


def stub_aes_decrypt(password, token):
    if not isinstance(token, Enc):
        raise ValueError('not a ciphertext')
    if token.password == password:
        return token.plaintext, token.iv
    if VM[0].new_bool('wrong_key_padding_valid'):
        return Garbage(), token.iv
    raise InvalidPasswordError()


def stub_mnemonic_decode(self, seed):
    if isinstance(seed, Garbage):
        raise IndexError('not a word')
    return 1


def stub_from_extended_key_string(ledger, s):
    if isinstance(s, Garbage):
        raise ValueError('bad extended key')
    return FakeKey(s)


class CaptureStorage:
    def __init__(self):
        self.path = None
        self.written = []

    def write(self, d):
        self.written.append(d)


def snapshot(acc):
    return (acc.seed, acc.private_key_string, acc.private_key.token if acc.private_key else None, acc.encrypted)


def has_plaintext(d, secrets):
    for a in d['accounts']:
        for field in ('seed', 'private_key'):
            v = a[field]
            for s in secrets:
                if v is s or (isinstance(v, str) and isinstance(s, str) and s and v == s):
                    return True
    return False


def lock_unlock(vm, shape):
    """shape: tuple of account kinds: 's' seeded (seed + key), 'k' key only, 'w' watch only (no secrets)."""
    VM[0] = vm
    pw = vm.new_str('password', 2)
    other = vm.new_str('other_password', 2)
    accounts = []
    secrets = []
    for i, kind in enumerate(shape):
        seed = ('seed words of account %d' % i) if kind == 's' else ''
        key = ('xprv-token-%d' % i) if kind in 'sk' else ''
        accounts.append(StubAccount('a%d' % i, seed, key))
        secrets.extend([x for x in (seed, key) if x])
    storage = CaptureStorage()
    wallet = Wallet('w', accounts, storage, {})
    before = [snapshot(a) for a in accounts]
    # 0. a save without encryption keeps every secret (what is written is what a later start loads)
    wallet.save()
    for i, kind in enumerate(shape):
        d = storage.written[-1]['accounts'][i]
        if (kind == 's' and d['seed'] != 'seed words of account %d' % i) or (kind in 'sk' and d['private_key'] != 'xprv-token-%d' % i):
            return 'VIOLATION: a save without encryption does not write the seed / private key of an account'
    wallet.encryption_password = pw
    wallet.preferences[ENCRYPT_ON_DISK] = True
    # 1. a save with encryption enabled and the password set writes no plaintext secret - and loses none
    wallet.save()
    if not storage.written or has_plaintext(storage.written[-1], secrets):
        return 'VIOLATION: a save with encryption enabled wrote a plaintext seed or private key'
    for i, kind in enumerate(shape):
        a = storage.written[-1]['accounts'][i]
        if not a['encrypted']:
            return 'VIOLATION: an account is saved as unencrypted although encryption is enabled'
        for field, plain in (('seed', 'seed words of account %d' % i if kind == 's' else None),
                             ('private_key', 'xprv-token-%d' % i if kind in 'sk' else None)):
            if plain is None:
                continue
            v = a[field]
            if not isinstance(v, Enc) or v.plaintext != plain or v.password != pw:
                return 'VIOLATION: an encrypted save does not hold the %s of an account encrypted under the password' % field
    # 2. lock
    wallet.lock()
    for a, kind in zip(accounts, shape):
        if not a.encrypted:
            return 'VIOLATION: an account stays unlocked after lock()'
        if a.private_key is not None or (kind == 's' and not isinstance(a.seed, Enc)):
            return 'VIOLATION: a locked account still holds a plaintext secret'
    locked = [(a.seed, a.private_key_string, a.encrypted) for a in accounts]
    # 3. unlock with a (possibly different) password
    try:
        ok = vm.await_(wallet.unlock(other))
    except Exception as e:
        ok = 'raised'
    if other == pw:
        if ok is not True:
            return 'VIOLATION: the right password does not unlock the wallet'
        after = [snapshot(a) for a in accounts]
        if after != before:
            return 'VIOLATION: unlocking with the right password does not restore the same seed and keys'
        if wallet.is_locked:
            return 'VIOLATION: wallet still locked after a successful unlock'
        return 'ok-unlocked'
    if all(k == 'w' for k in shape):
        # no account holds a secret: there is nothing a password could be checked against, and nothing to protect
        return 'ok-nothing-to-protect'
    if ok is True:
        return 'VIOLATION: a wrong password unlocked the wallet'
    now = [(a.seed, a.private_key_string, a.encrypted) for a in accounts]
    if now != locked:
        return 'VIOLATION: a failed unlock changed an account'
    for a in accounts:
        if a.private_key is not None:
            return 'VIOLATION: a failed unlock left a decrypted key behind'
    if not wallet.is_locked and any(k != 'w' for k in shape):
        return 'VIOLATION: the wallet is not locked after a failed unlock'
    return 'ok-refused'


PASSWORD_PAIRS = [          # (password, another password): unicode that is not stable under normalisation / case folding / stripping, long ones
    ('\ufb01sh\u2460\u2122', 'fish1TM'), ('e\u0301', '\u00e9'), ('\u212b', '\u00c5'), ('Pass word ', 'Pass word'), ('pass', 'PASS'),
    ('\uff50\uff41\uff53\uff53', 'pass'), ('x' * 300, 'x' * 299), ('\u00df', 'ss'), (' lead', 'lead'), ('tab\t', 'tab'), ('a\x00b', 'a'),
]


def save_sequences(vm, k, catalogue=False):
    """Every sequence of k wallet operations (encrypt / lock / unlock right or other password / add an account / save /
    decrypt): whenever a file is written while encryption is enabled and a password is set, it holds no plaintext secret; the password
    the wallet was encrypted with unlocks it and another one does not."""
    VM[0] = vm
    if catalogue:
        pw, other = PASSWORD_PAIRS[vm.pick('password_pair', len(PASSWORD_PAIRS))]
    else:
        pw = vm.new_str('password', 2)
        other = vm.new_str('other_password', 2)
    encrypted_with_pw = False
    if len(pw) == 0:
        return 'ok-blank-password'                         # Wallet.encrypt refuses a blank password
    accounts = [StubAccount('a0', 'seed words of account 0', 'xprv-token-0')]
    secrets = ['seed words of account 0', 'xprv-token-0']
    storage = CaptureStorage()
    wallet = Wallet('w', accounts, storage, {})
    checked = 0
    for step in range(k):
        op = vm.pick('op', 7)
        try:
            if op == 0:
                if wallet.is_locked:
                    continue
                wallet.encrypt(pw)
                encrypted_with_pw = True
            elif op == 1:
                if wallet.encryption_password is None:
                    continue
                wallet.lock()
            elif op == 2:
                was_locked = wallet.is_locked
                r = vm.await_(wallet.unlock(pw))
                if was_locked and encrypted_with_pw and (r is not True or wallet.is_locked):
                    return 'VIOLATION: the password the wallet was encrypted with does not unlock it'
            elif op == 3:
                was_locked = wallet.is_locked
                r = vm.await_(wallet.unlock(other))
                if was_locked and encrypted_with_pw and other != pw and (r is True or not wallet.is_locked):
                    return 'VIOLATION: a password other than the one the wallet was encrypted with unlocks it'
            elif op == 4:
                n = len(wallet.accounts)
                wallet.accounts.append(StubAccount('a%d' % n, 'seed words of account %d' % n, 'xprv-token-%d' % n))
                secrets.extend(['seed words of account %d' % n, 'xprv-token-%d' % n])
            elif op == 5:
                wallet.save()
            else:
                if wallet.is_locked:
                    continue
                wallet.decrypt()
                encrypted_with_pw = False
        except Exception as e:
            return 'VIOLATION: wallet operation %d raised %s' % (op, type(e).__name__)
        for d in storage.written[checked:]:
            if wallet.preferences.get(ENCRYPT_ON_DISK, False) and wallet.encryption_password is not None:
                if has_plaintext(d, secrets):
                    return 'VIOLATION: a save with encryption enabled wrote a plaintext seed or private key'
                for a in d['accounts']:
                    if not a['encrypted']:
                        return 'VIOLATION: an account is saved as unencrypted although encryption is enabled'
        checked = len(storage.written)
    return 'ok' if checked else 'ok-nothing-written'


# ------------------------------------------------------------------------------------------------ runner interface
def fs_models(fs_holder):
    """(callable, replacement) pairs: the same replacements serve the interpreter (as models) and the native replay."""
    import builtins
    import stat as stat_mod

    def fs():
        return fs_holder[0]

    class StatResult:
        def __init__(self, mode):
            self.st_mode = mode

    def m_open(path, mode='r', *a, **k):
        if isinstance(path, int):                   # open(fd, ...)
            return FileW(fs(), fs().fds[path])
        if 'r' in mode:
            if path not in fs().files:
                raise FileNotFoundError(path)
            if '+' in mode:
                raise NotImplementedError('model file system: update mode')
            return FileW(fs(), path)
        if 'x' in mode and path in fs().files:
            raise FileExistsError(path)
        fs().step('open ' + mode)
        if 'a' not in mode or path not in fs().files:
            fs().files[path] = ''
        fs().modes.setdefault(path, 0o644)
        return FileW(fs(), path)

    def m_os_open(path, flags, mode=0o777, *a, **k):
        exists = path in fs().files
        if exists and (flags & os.O_CREAT) and (flags & os.O_EXCL):
            raise FileExistsError(path)
        if not exists and not (flags & os.O_CREAT):
            raise FileNotFoundError(path)
        if not exists or (flags & os.O_TRUNC):
            fs().step('os.open')
            fs().files[path] = ''
            if not exists:
                fs().modes[path] = mode
        fd = 100 + len(fs().fds)
        fs().fds[fd] = path
        return fd

    def m_fdopen(fd, *a, **k):
        return FileW(fs(), fs().fds[fd])

    def m_os_write(fd, data):
        FileW(fs(), fs().fds[fd]).write(data)
        return len(data)

    def m_close(fd):
        return None

    def m_link(src, dst, *a, **k):
        if dst in fs().files:
            raise FileExistsError(dst)
        fs().step('link')
        fs().files[dst] = fs().files[src]
        fs().modes[dst] = fs().modes.get(src, 0o644)

    def m_copyfile(src, dst, *a, **k):
        content = fs().files[src]
        f = m_open(dst, 'w')
        f.write(content)
        return dst

    def m_move(src, dst, *a, **k):
        m_rename(src, dst)
        return dst

    def m_mkstemp(suffix='', prefix='tmp', dir=None, text=False):
        path = (dir or '/tmp') + '/' + prefix + 'mkstemp%d' % len(fs().fds) + (suffix or '')
        return m_os_open(path, os.O_RDWR | os.O_CREAT | os.O_EXCL, 0o600), path

    def m_named_temp(mode='w+b', buffering=-1, encoding=None, newline=None, suffix=None, prefix=None, dir=None, delete=True, **k):
        if delete:
            raise NotImplementedError('model file system: self-deleting temporary file')
        fd, path = m_mkstemp(suffix or '', prefix or 'tmp', dir)
        return FileW(fs(), path)

    def m_truncate(path, length=0):
        fs().step('truncate')
        fs().files[path] = fs().files[path][:length]

    def m_getsize(path):
        if path not in fs().files:
            raise FileNotFoundError(path)
        return len(fs().files[path])

    def m_fsync(fd):
        fs().step('fsync')

    def m_exists(path):
        return path in fs().files

    def m_stat(path):
        if path not in fs().files:
            raise FileNotFoundError(path)
        return StatResult(fs().modes.get(path, 0o644))

    def m_rename(src, dst):
        if fs().rename_fails and dst in fs().files and not fs().log[-1].startswith('remove'):
            fs().log.append('rename (refused: target exists)')
            raise FileExistsError(dst)
        fs().step('rename')
        fs().files[dst] = fs().files.pop(src)
        fs().modes[dst] = fs().modes.pop(src, 0o644)

    def m_replace(src, dst):
        fs().step('replace')
        fs().files[dst] = fs().files.pop(src)
        fs().modes[dst] = fs().modes.pop(src, 0o644)

    def m_remove(path):
        fs().step('remove')
        del fs().files[path]

    def m_chmod(path, mode):
        fs().step('chmod')
        fs().modes[path] = mode

    def m_getpid():
        return 4242

    import shutil
    import tempfile
    return [(builtins, 'open', m_open), (os, 'fsync', m_fsync), (os.path, 'exists', m_exists), (os, 'stat', m_stat),
            (os, 'rename', m_rename), (os, 'replace', m_replace), (os, 'remove', m_remove), (os, 'chmod', m_chmod), (os, 'getpid', m_getpid),
            (os, 'open', m_os_open), (os, 'fdopen', m_fdopen), (os, 'write', m_os_write), (os, 'close', m_close),
            (os, 'unlink', m_remove), (os, 'link', m_link), (os, 'fdatasync', m_fsync), (os, 'truncate', m_truncate),
            (os.path, 'isfile', m_exists), (os.path, 'lexists', m_exists), (os.path, 'getsize', m_getsize),
            (shutil, 'copyfile', m_copyfile), (shutil, 'copy', m_copyfile), (shutil, 'copy2', m_copyfile), (shutil, 'move', m_move),
            (tempfile, 'mkstemp', m_mkstemp), (tempfile, 'NamedTemporaryFile', m_named_temp)]


def sym_setup(vm, job):
    import lbry.wallet.account as acc_mod
    from lbry.wallet.mnemonic import Mnemonic
    holder = [None]

    def model_fs(crash_at):
        holder[0] = ModelFS(vm, crash_at)
        return holder[0]
    vm.register_helper('model_fs', model_fs)
    for mod, name, fn in fs_models(holder):
        vm.models[id(getattr(mod, name))] = (lambda f: (lambda vm_, a, k: vm_.call(f, list(a), k)))(fn)     # interpreted
        vm._helpers.append(fn)
    vm.models[id(acc_mod.aes_encrypt)] = lambda vm_, a, k: vm_.call(stub_aes_encrypt, list(a), k)
    vm.models[id(acc_mod.aes_decrypt)] = lambda vm_, a, k: vm_.call(stub_aes_decrypt, list(a), k)
    vm.models[id(acc_mod.from_extended_key_string)] = lambda vm_, a, k: vm_.call(stub_from_extended_key_string, list(a), k)
    vm.models[id(Mnemonic.mnemonic_decode)] = lambda vm_, a, k: vm_.call(stub_mnemonic_decode, list(a), k)
    vm.models[id(os.urandom)] = lambda vm_, a, k: b'\x11' * a[0]


class _Native:
    def __init__(self, nvm):
        self.nvm = nvm

    def __enter__(self):
        import lbry.wallet.account as acc_mod
        from lbry.wallet.mnemonic import Mnemonic
        holder = [None]
        nvm = self.nvm

        def model_fs(crash_at):
            holder[0] = ModelFS(nvm, crash_at)
            return holder[0]
        nvm.model_fs = model_fs
        self.saved = []
        patches = fs_models(holder) + [(acc_mod, 'aes_encrypt', stub_aes_encrypt), (acc_mod, 'aes_decrypt', stub_aes_decrypt),
                                       (acc_mod, 'from_extended_key_string', stub_from_extended_key_string),
                                       (Mnemonic, 'mnemonic_decode', stub_mnemonic_decode), (os, 'urandom', lambda n: b'\x11' * n)]
        for mod, name, fn in patches:
            self.saved.append((mod, name, getattr(mod, name)))
            setattr(mod, name, fn)

    def __exit__(self, *a):
        for mod, name, old in reversed(self.saved):
            setattr(mod, name, old)


def native_setup(nvm, job):
    return _Native(nvm)


def jobs(tier):
    out = []
    for has_old in (True, False):
        out.append(dict(name='atomic-write-' + ('over-existing' if has_old else 'first-save'), family='atomic', fn='atomic_write',
                        args=(has_old, False), loop_bound=400, max_depth=60, cost=300,
                        bounds=dict(previous_file=has_old, crash='before / inside every file-system operation, torn write at every byte',
                                    rename='POSIX (atomic, cannot fail)'),
                        must_reach=('ok-saved', 'ok-crash-new') + (('ok-crash-old',) if has_old else ())))
    out.append(dict(name='atomic-write-rename-refused', family='atomic', fn='atomic_write', args=(True, True), loop_bound=400,
                    max_depth=60, cost=300,
                    bounds=dict(previous_file=True, crash='before / inside every file-system operation',
                                rename='refuses to replace an existing file (Windows semantics)')))
    shapes = [('s',), ('k',), ('w',), ('s', 's'), ('s', 'k'), ('w', 's')] if tier == 'quick' else \
        [('s',), ('k',), ('w',), ('s', 's'), ('s', 'k'), ('k', 's'), ('w', 's'), ('k', 'w'), ('w', 'k'), ('s', 'w', 'k'), ('w', 'k', 's'), ('s', 's', 's')]
    for shape in shapes:
        out.append(dict(name='lock-unlock-' + ''.join(shape), family='secrets', fn='lock_unlock', args=(shape,), loop_bound=200,
                        max_depth=60, cost=100,
                        bounds=dict(accounts=''.join(shape) + ' (s seeded, k key-only, w watch-only)', passwords='two symbolic strings, '
                                    'equal or different', wrong_key='raises or decrypts to garbage (symbolic)'),
                        must_reach=('ok-unlocked',) + (('ok-refused',) if any(k != 'w' for k in shape) else ())))
    for k in ((4,) if tier == 'quick' else (4, 5, 6)):
        out.append(dict(name=f'save-sequences-{k}', family='secrets', fn='save_sequences', args=(k,), loop_bound=200, max_depth=60,
                        cost=7 ** k, bounds=dict(operations=k, operation_kinds='encrypt / lock / unlock(password) / unlock(other) / '
                                                 'add account / save / decrypt', passwords='two symbolic strings'),
                        must_reach=('ok',)))
    out.append(dict(name='save-sequences-3-password-catalogue', family='secrets', fn='save_sequences', args=(3, True), loop_bound=200, max_depth=60,
                    cost=7 ** 3 * len(PASSWORD_PAIRS), bounds=dict(operations=3, operation_kinds='as above', passwords='%d concrete pairs: unicode that '
                                                                   'changes under NFKC/NFC, case, surrounding blanks, NUL, 300 characters' % len(PASSWORD_PAIRS)),
                    must_reach=('ok',)))
    return out


def finding_key(job, verdict, inputs, named):
    return f'{job.get("family")}|{job["name"]}|{verdict}'


def _rename_before_fsync(node):
    """Canary: write the wallet in place (open the real path instead of the temp path)."""
    import ast
    for n in ast.walk(node):
        if isinstance(n, ast.With) and isinstance(n.items[0].context_expr, ast.Call):
            call = n.items[0].context_expr
            call.args[0] = ast.Attribute(value=ast.Name(id='self', ctx=ast.Load()), attr='path', ctx=ast.Load())
            return True
    return False


def _decrypt_keeps_going(node):
    """Canary: Account.decrypt marks the account decrypted before the password has been checked."""
    import ast
    for i, st in enumerate(node.body):
        if isinstance(st, ast.Try):
            node.body.insert(i, ast.parse('self.encrypted = False').body[0])
            return True
    return False


def _save_never_encrypts(node):
    """Canary: Wallet.save ignores the encrypt-on-disk preference."""
    import ast
    for n in ast.walk(node):
        if isinstance(n, ast.If):
            n.test = ast.Constant(False)
            return True
    return False


CANARIES = [
    dict(name='decrypt-assigns-before-checking', target='lbry.wallet.account:Account.decrypt', mutate=_decrypt_keeps_going,
         job=dict(family='secrets', name='lock-unlock-s', fn='lock_unlock', args=(('s',),), loop_bound=200, max_depth=60)),
    dict(name='save-never-encrypts', target='lbry.wallet.wallet:Wallet.save', mutate=_save_never_encrypts,
         job=dict(family='secrets', name='lock-unlock-s', fn='lock_unlock', args=(('s',),), loop_bound=200, max_depth=60)),
    dict(name='wallet-written-in-place', target='lbry.wallet.wallet:WalletStorage.write', mutate=_rename_before_fsync,
         job=dict(family='atomic', name='atomic-write-over-existing', fn='atomic_write', args=(True, False), loop_bound=400, max_depth=60)),
]
