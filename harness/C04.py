"""C04 - signatures: what is signed, by which key, and what a channel signature binds (under an ideal signature scheme).

Interpreted from /repo: Transaction.sign, _serialize_for_signature, _serialize_outputs, signature_hash_type, _reset, raw,
Input.spend / serialize_to, InputScript.redeem_pubkey_hash and the script generator; Output.sign, get_signature_digest,
is_signed_by, is_signature_valid, claim / signable / claim_hash, Signable.to_bytes / from_bytes / clear_signature and
the claim script round trip through Transaction(raw).  ECDSA is replaced by an ideal signature scheme and SHA-256 /
hash160 by ideal functions; the protobuf claim message is an opaque byte string."""
from binascii import hexlify

from lbry.schema.base import Signable
from lbry.schema.claim import Claim
from lbry.wallet.hash import TXRefImmutable
from lbry.wallet.script import OutputScript
from lbry.wallet.transaction import Transaction, Input, Output
from lbry.crypto.hash import sha256

from harness.C05 import ref_varint, ref_outputs, ref_serialize

LEVEL_TEXT = ('Bounded model checking of the real signing code under an ideal signature scheme (a signature verifies iff the same '
              'key signed the same message): for transactions of 1..3 inputs (plain or claim-bearing pay-to-pubkey-hash outputs of '
              'solver-chosen keys, symbolic hashes/positions/sequences/amounts, scripts of any length) every input is signed by the key '
              'its spent output pays to, over exactly the SIGHASH_ALL pre-image of an independent encoder, and carries signature+01 and '
              'that public key; a claim signed by a channel validates, still validates after the transaction is serialised and parsed '
              'back, and stops validating when the content, the channel, the stored channel hash, the signature or the first input '
              'changes; the pre-release digest layout (address, payload, reversed channel hash) still validates.')
LEVEL_NOTE = ('Trusted: z3, the interpreter (every path replayed natively with the same stubs), the reference pre-image encoder.  '
              'NOT covered - and not decidable by this technique: that libsecp256k1 produces signatures an independent secp256k1 '
              'implementation accepts (elliptic-curve arithmetic in a C library), DER encoding, low-S normalisation.  The claim is '
              'about which bytes are signed by which key and what the validation binds, nothing about ECDSA itself.')
ASSUMPTIONS = [
    'ideal signature scheme: PrivateKey.sign / sign_compact return a fresh tag and record (key, message); '
    'PublicKey.verify(sig, digest) is true iff that public key\'s private key produced sig for exactly that digest',
    'sha256 and hash160 are ideal injective functions',
    'the protobuf claim message is an opaque byte string (a stand-in message class whose SerializeToString/ParseFromString '
    'store bytes); Claim is replaced by a subclass that only changes the message class',
    'stub ledger: hash160_to_address is the identity on the 20-byte hash, get_private_key_for_address looks the hash up among three keys',
]
OUTSIDE = ['ECDSA / secp256k1 / DER themselves', 'protobuf encoding of claims', 'script-hash (time lock, multisig) spends',
           'more than 3 inputs', 'legacy claim *parsing* (only the legacy digest layout is checked)']

LOG = []
VM = [None]


class FakePublicKey:
    def __init__(self, kid):
        self.kid = kid
        self.pubkey_bytes = bytes([2, kid]) + b'P' * 31


class FakePrivateKey:
    def __init__(self, kid):
        self.kid = kid
        self.public_key = FakePublicKey(kid)
        self.pubkey_hash = bytes([0xa0 + kid]) * 20

    def sign(self, data):
        LOG.append((self.kid, 'tx', data))
        return b'\x30' + bytes([self.kid, len(LOG)]) + b'S' * 67

    def sign_compact(self, digest):
        LOG.append((self.kid, 'compact', digest))
        return bytes([self.kid, len(LOG)]) + b'C' * 62


class Verifier:
    """PublicKey.from_compressed(b).verify(sig, digest) under the ideal scheme."""

    def __init__(self, pubkey_bytes):
        self.pubkey_bytes = pubkey_bytes

    def verify(self, signature, digest):
        if len(signature) != 64:
            raise ValueError('Signature must be 64 bytes long.')
        if len(digest) != 32:
            raise ValueError('Digest must be 32 bytes long.')
        n = 0
        for (kid, kind, msg) in LOG:
            n += 1
            if kind == 'compact' and FakePublicKey(kid).pubkey_bytes == self.pubkey_bytes \
                    and signature == bytes([kid, n]) + b'C' * 62 and msg == digest:
                return True
        return False


class StubLedger:
    def __init__(self, keys):
        self.keys = keys

    def hash160_to_address(self, h):
        return h

    observed_tx = None           # another task of the event loop that looks at the transaction while sign() waits for the key (db round trip)
    observed = None

    async def get_private_key_for_address(self, wallet, address):
        if self.observed_tx is not None:
            self.observed.append((self.observed_tx.id, self.observed_tx.size))
        for k in self.keys:
            if k.pubkey_hash == address:
                return k
        return None


class StubAccount:
    def __init__(self, ledger, wallet):
        self.ledger, self.wallet = ledger, wallet


class FakeMessage:
    """Stand-in for the protobuf message: an opaque byte string."""

    def __init__(self):
        self.data = b''

    def SerializeToString(self):
        return self.data

    def ParseFromString(self, data):
        self.data = data


class FakeChannelPart:
    def __init__(self, key):
        self.public_key_bytes = key.public_key.pubkey_bytes


class StubClaim(Claim):
    """Claim with an opaque message; everything else (Signable) is the real code."""
    __slots__ = ()
    message_class = FakeMessage


class StubSignable(Signable):
    """The envelope code alone (Claim.from_bytes adds fall-backs to pre-release encodings, which are protobuf)."""
    __slots__ = ()
    message_class = FakeMessage


class ChannelClaim:
    def __init__(self, key):
        self.channel = FakeChannelPart(key)


class StubChannel:
    """What Output.sign / is_signed_by read from the channel's output."""

    def __init__(self, claim_hash, key):
        self.claim_hash = claim_hash
        self.private_key = key
        self.claim = ChannelClaim(key)


# ------------------------------------------------------------------------------------------------ (a) transaction inputs
def ref_preimage(version, ins, spent_scripts, outs, locktime, signing):
    raw = version.to_bytes(4, 'little') + ref_varint(len(ins))
    for j in range(len(ins)):
        h, pos, seq = ins[j]
        script = spent_scripts[j] if j == signing else b''
        raw = raw + h + pos.to_bytes(4, 'little') + ref_varint(len(script)) + script + seq.to_bytes(4, 'little')
    return raw + ref_outputs(outs) + locktime.to_bytes(4, 'little') + b'\x01\x00\x00\x00'


def tx_sign(vm, n_in, n_out):
    VM[0] = vm
    del LOG[:]
    keys = [FakePrivateKey(k) for k in range(3)]
    ledger = StubLedger(keys)
    account = StubAccount(ledger, 'wallet')
    version = vm.new_int('version', 0, 2 ** 32 - 1)
    locktime = vm.new_int('locktime', 0, 2 ** 32 - 1)
    tx = Transaction(version=version, locktime=locktime)
    ins, spent_scripts, owners = [], [], []
    for i in range(n_in):
        which = vm.pick('key', 3)
        h = vm.new_bytes('txhash', 32)
        vm.assume(h != b'\x00' * 32)                 # the null hash marks a coinbase input: not an output a wallet can spend
        pos = vm.new_int('pos', 0, 2 ** 32 - 1)
        amount = vm.new_int('amount', 0, 2 ** 62)
        if vm.pick('spent_kind', 2) == 0:
            script = OutputScript.pay_pubkey_hash(keys[which].pubkey_hash)
        else:
            script = OutputScript.pay_claim_name_pubkey_hash(b'name', vm.new_run('claim', 0, 1000), keys[which].pubkey_hash)
        txo = Output(amount, script, tx_ref=TXRefImmutable.from_hash(h, -1), position=pos)
        txi = Input.spend(txo)
        txi.sequence = vm.new_int('seq', 0, 2 ** 32 - 1)
        tx.add_inputs([txi])
        ins.append((h, pos, txi.sequence))
        spent_scripts.append(script.source)
        owners.append(which)
    outs = []
    for i in range(n_out):
        outs.append((vm.new_int('out_amount', 0, 2 ** 62), vm.new_run('oscript', 0, 200)))
        tx.add_outputs([Output(outs[-1][0], OutputScript(outs[-1][1]))])
    if vm.new_bool('sized_then_changed'):
        # what the wallet does between funding and signing: the transaction is sized / serialised once (fee computation),
        # then an output is changed in place (a claim is signed by its channel, the change amount is set)
        if len(tx.raw) != tx.size:
            return 'VIOLATION: size differs from the length of the serialisation'
        changed = vm.new_int('changed_amount', 0, 2 ** 62)
        tx.outputs[0].amount = changed
        outs[0] = (changed, outs[0][1])
    if vm.new_bool('observer_reads_id_and_size_while_signing_waits_for_a_key'):
        ledger.observed_tx, ledger.observed = tx, []
    try:
        vm.await_(tx.sign([account]))
    except Exception as e:
        return 'VIOLATION: Transaction.sign raised %s' % type(e).__name__
    ledger.observed_tx = None
    signed = [e for e in LOG if e[1] == 'tx']
    if len(signed) != n_in:
        return 'VIOLATION: %d signatures were made for %d inputs' % (len(signed), n_in)
    final_ins = []
    for i in range(n_in):
        kid, kind, message = signed[i]
        if kid != owners[i]:
            return 'VIOLATION: an input is signed by a key other than the one its spent output pays to'
        if message != ref_preimage(version, ins, spent_scripts, outs, locktime, i):
            return 'VIOLATION: the signed message is not the SIGHASH_ALL pre-image of this input'
        tag = b'\x30' + bytes([kid, i + 1]) + b'S' * 67
        values = tx.inputs[i].script.values
        if values['signature'] != tag + b'\x01':
            return 'VIOLATION: the input does not carry its signature followed by the SIGHASH_ALL byte'
        if values['pubkey'] != keys[owners[i]].public_key.pubkey_bytes:
            return 'VIOLATION: the input does not carry the public key of the spent output\'s owner'
        source = bytes([71]) + tag + b'\x01' + bytes([33]) + keys[owners[i]].public_key.pubkey_bytes
        if tx.inputs[i].script.source != source:
            return 'VIOLATION: the input script is not <signature> <public key>'
        final_ins.append((ins[i][0], ins[i][1], source, ins[i][2]))
    if tx.raw != ref_serialize(version, final_ins, outs, locktime):
        return 'VIOLATION: the serialised transaction does not contain the signed input scripts'
    if tx.id != hexlify(sha256(sha256(tx.raw))[::-1]).decode():
        return 'VIOLATION: the transaction id was not recomputed after signing'
    return 'ok'


# ------------------------------------------------------------------------------------------------ (b) channel signatures
def build_claim_tx(vm, n_in, keys):
    tx = Transaction()
    for i in range(n_in):
        h = vm.new_bytes('txhash', 32)
        vm.assume(h != b'\x00' * 32)
        txo = Output(vm.new_int('amount', 0, 2 ** 62), OutputScript.pay_pubkey_hash(keys[0].pubkey_hash),
                     tx_ref=TXRefImmutable.from_hash(h, -1), position=vm.new_int('pos', 0, 2 ** 32 - 1))
        tx.add_inputs([Input.spend(txo)])
    claim = StubClaim()
    claim.message.data = vm.new_run('message', 0, 2 ** 16)
    txo = Output.pay_claim_name_pubkey_hash(vm.new_int('claim_amount', 0, 2 ** 62), 'name', claim, keys[0].pubkey_hash)
    tx.add_outputs([txo])
    return tx, txo, claim


def channel_sign(vm, n_in, mutation):
    """Sign a claim with a channel inside a transaction; validate; serialise and parse back; mutate one thing; validate."""
    VM[0] = vm
    del LOG[:]
    keys = [FakePrivateKey(k) for k in range(3)]
    ledger = StubLedger(keys)
    tx, txo, claim = build_claim_tx(vm, n_in, keys)
    channel_hash = vm.new_bytes('channel_hash', 20)
    channel = StubChannel(channel_hash, keys[1])
    message = claim.message.data
    first = tx.inputs[0].txo_ref.tx_ref.hash + tx.inputs[0].txo_ref.position.to_bytes(4, 'little')
    try:
        txo.sign(channel)
    except Exception as e:
        return 'VIOLATION: Output.sign raised %s' % type(e).__name__
    if len(LOG) != 1 or LOG[0][0] != 1 or LOG[0][1] != 'compact':
        return 'VIOLATION: the claim was not signed exactly once with the channel\'s key'
    if LOG[0][2] != sha256(first + channel_hash + message):
        return 'VIOLATION: the signed digest is not sha256(first input || channel hash || claim message)'
    if claim.signing_channel_hash != channel_hash or claim.signature != bytes([1, 1]) + b'C' * 62:
        return 'VIOLATION: the claim does not carry the channel hash and the signature'
    if not txo.is_signed_by(channel, ledger):
        return 'VIOLATION: a freshly signed claim does not validate against its channel'
    # through the wire: the signed claim sits in the output script of the serialised transaction
    envelope = b'\x01' + channel_hash + claim.signature + message
    if txo.script.values['claim'].to_bytes() != envelope:
        return 'VIOLATION: the signed claim is not serialised as 01 || channel hash || signature || message'
    back = Transaction(tx.raw)
    btxo = back.outputs[0]
    try:
        bclaim = btxo.claim
    except Exception as e:
        return 'VIOLATION: the signed claim does not parse back (%s)' % type(e).__name__
    if not bclaim.is_signed or bclaim.signing_channel_hash != channel_hash or bclaim.signature != claim.signature \
            or bclaim.to_message_bytes() != message:
        return 'VIOLATION: channel hash, signature or message differ after the round trip through the transaction'
    if not btxo.is_signed_by(channel, ledger):
        return 'VIOLATION: a signed claim stops validating after the transaction is serialised and parsed back'
    # one change at a time: it must stop validating
    what = mutation
    if what == 'content':
        other = vm.new_run('other_message', 0, 2 ** 16)
        vm.assume(other != message)
        bclaim.message.data = other
    elif what == 'channel-key':
        channel = StubChannel(channel_hash, keys[2])
    elif what == 'channel-hash':
        other = vm.new_bytes('other_channel_hash', 20)
        vm.assume(other != channel_hash)
        bclaim.signing_channel_hash = other
    elif what == 'signature':
        other = vm.new_bytes('other_signature', 64)
        vm.assume(other != claim.signature)
        bclaim.signature = other
    elif what == 'first-input-hash':
        other = vm.new_bytes('other_txhash', 32)
        vm.assume(other != back.inputs[0].txo_ref.tx_ref.hash)
        back.inputs[0].txo_ref.tx_ref = TXRefImmutable.from_hash(other, -1)
    elif what == 'first-input-position':
        other = vm.new_int('other_pos', 0, 2 ** 32 - 1)
        vm.assume(other != back.inputs[0].txo_ref.position)
        back.inputs[0].txo_ref.position = other
    elif what == 'cleared':
        btxo.clear_signature()
        if bclaim.is_signed or bclaim.signature is not None or bclaim.signing_channel_hash is not None:
            return 'VIOLATION: clear_signature leaves signature data behind'
        if bclaim.to_bytes() != b'\x00' + message:
            return 'VIOLATION: an unsigned claim is not serialised as 00 || message'
        return 'ok-cleared'
    try:
        still = btxo.is_signed_by(channel, ledger)
    except Exception as e:
        return 'VIOLATION: validation raised %s after a change of the %s' % (type(e).__name__, what)
    if still:
        return 'VIOLATION: the claim still validates after a change of the %s' % what
    return 'ok-rejected'


def envelope_parse(vm):
    """Signable.from_bytes on every envelope: version byte, 20-byte channel hash, 64-byte signature, message."""
    VM[0] = vm
    first = vm.new_int('format_byte', 0, 255)
    channel_hash = vm.new_bytes('channel_hash', 20)
    signature = vm.new_bytes('signature', 64)
    message = vm.new_run('message', 0, 2 ** 16)
    data = first.to_bytes(1, 'little') + (channel_hash + signature if vm.new_bool('with_signature') else b'') + message
    try:
        c = StubSignable.from_bytes(data)
    except Exception as e:
        if first <= 1:
            return 'VIOLATION: a well-formed claim envelope is refused (%s)' % type(e).__name__
        return 'ok-refused'
    if first > 1:
        return 'VIOLATION: an envelope with an unknown format byte is accepted'
    if first == 0:
        if c.is_signed or c.to_message_bytes() != data[1:]:
            return 'VIOLATION: an unsigned envelope is not parsed as 00 || message'
        if c.to_bytes() != data:
            return 'VIOLATION: an unsigned envelope does not serialise back to the same bytes'
        return 'ok-unsigned'
    if len(data) < 85:
        return 'ok-short-signed-envelope'
    if c.signing_channel_hash != data[1:21] or c.signature != data[21:85] or c.to_message_bytes() != data[85:]:
        return 'VIOLATION: a signed envelope is not parsed as 01 || hash[20] || signature[64] || message'
    if c.to_bytes() != data:
        return 'VIOLATION: a signed envelope does not serialise back to the same bytes'
    return 'ok-signed'


def legacy_digest(vm):
    """A claim signed by a pre-release client: digest = sha256(address bytes || payload || reversed channel hash)."""
    VM[0] = vm
    del LOG[:]
    keys = [FakePrivateKey(k) for k in range(3)]
    ledger = LegacyLedger(keys)
    tx, txo, claim = build_claim_tx(vm, 1, keys)
    channel_hash = vm.new_bytes('channel_hash', 20)
    channel = StubChannel(channel_hash, keys[1])
    payload = vm.new_run('unsigned_payload', 1, 2 ** 16)
    # the two digest pre-images (legacy: 25 + payload + 20 bytes, current: 36 + 20 + message bytes) have different lengths, so the
    # ideal hash tells them apart without comparing opaque content byte by byte
    vm.assume(len(payload) != len(claim.message.data) + 11)
    address_bytes = b'\x55' + keys[0].pubkey_hash + b'\x01\x02\x03\x04'
    claim.unsigned_payload = payload
    claim.signing_channel_hash = channel_hash
    claim.signature = keys[1].sign_compact(sha256(address_bytes + payload + channel_hash[::-1]))
    if not txo.is_signed_by(channel, ledger):
        return 'VIOLATION: a signature made by an earlier release no longer validates'
    if vm.new_bool('change_payload'):
        claim.unsigned_payload = vm.new_run('other_payload', 1, 2 ** 16)
        if txo.is_signed_by(channel, ledger):
            return 'VIOLATION: a legacy claim still validates after its payload changed'
        return 'ok-rejected'
    # the owner moves the claim to another channel: clear the old signature, sign again
    other = StubChannel(vm.new_bytes('other_channel_hash', 20), keys[2])
    txo.clear_signature()
    if claim.is_signed:
        return 'VIOLATION: clear_signature leaves signature data behind'
    txo.sign(other)
    if not txo.is_signed_by(other, ledger):
        return 'VIOLATION: a legacy claim signed again by another channel does not validate against it'
    if txo.is_signed_by(channel, ledger):
        return 'VIOLATION: a re-signed claim still validates against its former channel'
    return 'ok'


class LegacyLedger(StubLedger):
    def hash160_to_address(self, h):
        return ('address-of', h)


# ------------------------------------------------------------------------------------------------ runner interface
class IdealPublicKey:
    @staticmethod
    def from_compressed(pubkey_bytes):
        return Verifier(pubkey_bytes)


class StubBase58:
    @staticmethod
    def decode_check(address):
        """Base58Check: the payload without its four checksum bytes."""
        return b'\x55' + address[1]

    @staticmethod
    def decode(address):
        """Base58.decode of an address: version byte, hash160, four checksum bytes (the codec itself is C06)."""
        return b'\x55' + address[1] + b'\x01\x02\x03\x04'


def _patch():
    """The crypto / protobuf dependencies of lbry.wallet.transaction are replaced at module level (both modes)."""
    import lbry.wallet.transaction as T
    saved = (T.Claim, T.PublicKey, T.Base58)
    T.Claim, T.PublicKey, T.Base58 = StubClaim, IdealPublicKey, StubBase58
    return saved


def sym_setup(vm, job):
    from symvm.ideal import IdealFn
    import lbry.wallet.transaction as T
    h = IdealFn(vm, 'sha256', 32, injective=True, bv=False)
    vm.models[id(sha256)] = h.model()
    vm.models[id(T.sha256)] = h.model()
    h160 = IdealFn(vm, 'hash160', 20, injective=True, bv=False)
    vm.models[id(T.hash160)] = h160.model()
    _patch()


class _Native:
    def __init__(self, nvm):
        self.nvm = nvm

    def __enter__(self):
        self.saved = _patch()

    def __exit__(self, *a):
        import lbry.wallet.transaction as T
        T.Claim, T.PublicKey, T.Base58 = self.saved


def native_setup(nvm, job):
    return _Native(nvm)


def jobs(tier):
    out = []
    shapes = [(1, 1), (2, 1), (2, 2)] if tier == 'quick' else [(1, 1), (1, 2), (2, 1), (2, 2), (3, 1), (3, 2)]
    for n_in, n_out in shapes:
        out.append(dict(name=f'tx-sign-{n_in}in-{n_out}out', family='tx-sign', fn='tx_sign', args=(n_in, n_out), loop_bound=200,
                        max_depth=60, cost=100 * 6 ** n_in,
                        bounds=dict(inputs=n_in, outputs=n_out, keys=3, spent_output='plain or claim-bearing pay-to-pubkey-hash',
                                    fields='32-bit version/locktime/position/sequence, claim data 0..1000 bytes, output scripts 0..200 bytes (size boundaries are C05/C15)'),
                        must_reach=('ok',)))
    for mutation in ('content', 'channel-key', 'channel-hash', 'signature', 'first-input-hash', 'first-input-position', 'cleared'):
        for n_in in ((1,) if tier == 'quick' else (1, 2)):
            out.append(dict(name=f'channel-sign-{mutation}-{n_in}in', family='channel', fn='channel_sign', args=(n_in, mutation),
                            loop_bound=200, max_depth=60, cost=300,
                            bounds=dict(inputs=n_in, change=mutation, message='opaque run of any length < 2^16'),
                            must_reach=('ok-cleared',) if mutation == 'cleared' else ('ok-rejected',)))
    out.append(dict(name='envelope-parse', family='envelope', fn='envelope_parse', args=(), loop_bound=200, max_depth=60, cost=50,
                    bounds=dict(format_byte='0..255', message='any length < 2^16'),
                    must_reach=('ok-unsigned', 'ok-signed', 'ok-refused')))
    out.append(dict(name='legacy-digest', family='legacy', fn='legacy_digest', args=(), loop_bound=200, max_depth=60, cost=50,
                    bounds=dict(payload='any length 1..2^16'), must_reach=('ok', 'ok-rejected')))
    return out


def finding_key(job, verdict, inputs, named):
    return f'{job.get("family")}|{verdict}'


def _sign_all_scripts(node):
    """Canary: every input keeps a script in the pre-image (the comparison selecting the signed input is inverted)."""
    import ast
    for n in ast.walk(node):
        if isinstance(n, ast.Compare) and isinstance(n.ops[0], ast.Eq) and isinstance(n.left, ast.Name) and n.left.id == 'signing_input':
            n.ops[0] = ast.NotEq()
            return True
    return False


def _digest_without_first_input(node):
    """Canary: the validation digest no longer covers the transaction's first input."""
    import ast
    lists = [n for n in ast.walk(node) if isinstance(n, ast.List) and len(n.elts) == 3]
    if len(lists) >= 2:
        lists[1].elts[0] = ast.Constant(b'')
        return True
    return False


def _short_signature_slice(node):
    """Canary: Signable.from_bytes reads 63 signature bytes."""
    import ast
    for n in ast.walk(node):
        if isinstance(n, ast.Slice) and isinstance(n.upper, ast.Constant) and n.upper.value == 85 and n.lower is not None:
            n.upper = ast.Constant(84)
            return True
    return False


CANARIES = [
    dict(name='preimage-selects-wrong-input', target='lbry.wallet.transaction:Transaction._serialize_for_signature',
         mutate=_sign_all_scripts, job=dict(family='tx-sign', fn='tx_sign', args=(2, 1), loop_bound=200, max_depth=60)),
    dict(name='digest-drops-first-input', target='lbry.wallet.transaction:Output.get_signature_digest',
         mutate=_digest_without_first_input,
         job=dict(family='channel', fn='channel_sign', args=(1, 'first-input-hash'), loop_bound=200, max_depth=60)),
    dict(name='envelope-signature-63-bytes', target='lbry.schema.base:Signable.from_bytes', mutate=_short_signature_slice,
         job=dict(family='envelope', fn='envelope_parse', args=(), loop_bound=200, max_depth=60)),
]
