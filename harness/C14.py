"""C14 - no double spend: concurrent transaction builds never share an output.

Interpreted from /repo: Ledger.get_spendable_utxos (lock + select + reserve), get_effective_amount_estimators,
reserve_outputs/release_outputs/release_tx, CoinSelector, and Transaction.create (incl. its failure path) - run by
several concurrent builders under a scheduler that makes every await of a database call a scheduling point."""
from lbry.error import InsufficientFundsError
from lbry.wallet import coinselection
from lbry.wallet.ledger import Ledger
from lbry.wallet.transaction import Transaction, Output, Input
from harness.C03 import make_utxo, StubRandom, StubChain, VM_REF, CHANGE_ADDRESS
from symvm.sched import Sched
from harness import spend_sql

LEVEL_TEXT = ('Bounded model checking over schedules: n concurrent builders run the real reservation code; every await of '
              'a database stub is a scheduling point and the choice of the next runnable coroutine is a solver-chosen '
              'input, so the decision tree enumerates every interleaving at await granularity together with symbolic UTXO '
              'amounts and targets; the no-sharing, unavailability and final-release obligations are checked on every path.')
LEVEL_NOTE = ('Trusted: z3, the interpreter, the thread-per-coroutine scheduler (one thread runs at a time; replayed natively '
              'with the same schedule on real coroutines), the lock model (asyncio.Lock semantics: a waiter is not runnable '
              'until the lock is free; wake-up order arbitrary, a superset of FIFO), the db stub.  The real-db jobs run two builds in '
              'sequence (the first still in flight, optionally a re-sync in between) over the real wallet database on the real sqlite3 '
              'library, including the sqlite strategy whose reservation happens in SQL (concrete amount catalogues: enumerated).  Outside: '
              'the sqlite strategy under concurrent schedules, more builders/UTXOs than the bound.')
ASSUMPTIONS = [
    'db stub: a python list with reservation flags; every stub call yields to the scheduler before it takes effect '
    '(arbitrary completion order of database calls)',
    'model lock with asyncio.Lock semantics replaces Ledger._utxo_reservation_lock',
    'Random stub as in C03 (every shuffle outcome)',
]
OUTSIDE = ['the sqlite strategy under concurrent schedules (it is covered for sequential builds over the real database, real-db jobs)', 'builds funded by different, overlapping sets of accounts', 'more than 3 concurrent builds']

SCHED = [None]


class ModelLock:
    def __init__(self):
        self.locked = False

    async def __aenter__(self):
        while self.locked:
            SCHED[0].block_on(self)           # not runnable until the lock is free (asyncio.Lock semantics)
        self.locked = True

    async def __aexit__(self, *a):
        self.locked = False
        return False


class StubDB:
    def __init__(self):
        self.reserved = []
        self.spent = []

    async def reserve_outputs(self, txos):
        txos = list(txos)
        SCHED[0].yield_('db.reserve')
        for t in txos:
            self.reserved.append(t)

    async def release_outputs(self, txos):
        txos = list(txos)
        SCHED[0].yield_('db.release')
        for t in txos:
            if t in self.reserved:
                self.reserved.remove(t)


class StubAccount:
    def __init__(self, ledger, utxos):
        self.ledger, self.utxos = ledger, utxos
        self.wallet = 'wallet'
        self.change = StubChain()

    async def get_utxos(self, **constraints):
        SCHED[0].yield_('db.get_utxos')
        return [u for u in self.utxos if u not in self.ledger.db.reserved and u not in self.ledger.db.spent]


class StubLedger:
    fee_per_byte = 50
    fee_per_name_char = 0
    coin_selection_strategy = None
    get_spendable_utxos = Ledger.get_spendable_utxos
    get_effective_amount_estimators = Ledger.get_effective_amount_estimators
    reserve_outputs = Ledger.reserve_outputs
    release_outputs = Ledger.release_outputs
    release_tx = Ledger.release_tx
    address_to_hash160 = staticmethod(Ledger.address_to_hash160)

    def __init__(self):
        self.db = StubDB()
        self._utxo_reservation_lock = ModelLock()


def shares(selections):
    seen = []
    for sel in selections:
        for txo in sel:
            for s in seen:
                if s is txo:
                    return True
            seen.append(txo)
    return False


def select_builder(vm, ledger, account, amount, results):
    got = vm.await_(ledger.get_spendable_utxos(amount, [account]))
    sel = [s.txo for s in got]
    # while this builder holds them, nobody else may be offered them: checked against the live reservation list
    for txo in sel:
        if txo not in ledger.db.reserved:
            results.append('UNRESERVED')
    results.append(sel)


def select_only(vm, n_builders, k, strategy):
    """n concurrent get_spendable_utxos calls (the reservation step alone)."""
    VM_REF[0] = vm
    SCHED[0] = Sched(vm)
    ledger = StubLedger()
    ledger.coin_selection_strategy = strategy
    shared = k >= 2 and vm.new_bool('outputs_of_one_funding_tx')
    utxos = [make_utxo(i, vm.new_int('utxo', 10 ** 6, 10 ** 9), 1, 0 if shared else None) for i in range(k)]
    account = StubAccount(ledger, utxos)
    results = []
    for b in range(n_builders):
        SCHED[0].spawn(select_builder, [vm, ledger, account, vm.new_int('want', 1, 10 ** 9), results])
    SCHED[0].run_all()
    if 'UNRESERVED' in results:
        return 'VIOLATION: a selected output was not reserved when handed to the builder'
    sels = [r for r in results if r != 'UNRESERVED']
    if shares(sels):
        return 'VIOLATION: one unspent output handed to two concurrent builders'
    for sel in sels:
        vm.await_(ledger.release_outputs(sel))
    if ledger.db.reserved:
        return 'VIOLATION: outputs still reserved after every build was released'
    n = 0
    for sel in sels:
        if sel:
            n += 1
    return 'ok-%d-funded' % n


def create_builder(vm, ledger, account, pay, results, fate):
    fate = bool(fate)
    outs = [Output.pay_pubkey_hash(pay, b'\x07' * 20)] if pay is not None else []      # None: an inputs-only build
    try:
        tx = vm.await_(Transaction.create([], outs, [account], account, False))
    except InsufficientFundsError:
        results.append(('failed', []))
        return
    sel = [txi.txo_ref.txo for txi in tx.inputs]
    results.append(('built', sel))
    SCHED[0].yield_('between build and broadcast')
    if fate:
        for t in sel:                                   # broadcast: the outputs are spent for good
            ledger.db.spent.append(t)
        vm.await_(ledger.release_tx(tx))
    else:
        vm.await_(ledger.release_tx(tx))                # abandoned
    results.append(('finished', sel))


def create_concurrent(vm, n_builders, k, strategy, fates=None, inputs_only=False):
    """n concurrent Transaction.create calls, each then broadcast or abandoned at an arbitrary later point."""
    VM_REF[0] = vm
    SCHED[0] = Sched(vm)
    ledger = StubLedger()
    ledger.coin_selection_strategy = strategy
    shared = k >= 2 and vm.new_bool('outputs_of_one_funding_tx')
    utxos = [make_utxo(i, vm.new_int('utxo', 0 if inputs_only else 10 ** 5, 10 ** 9), 1, 0 if shared else None) for i in range(k)]
    account = StubAccount(ledger, utxos)
    results = []
    for b in range(n_builders):
        fate = vm.new_bool('broadcast') if fates is None else fates[b]
        pay = None if inputs_only else vm.new_int('pay', 1, 10 ** 9)
        SCHED[0].spawn(create_builder, [vm, ledger, account, pay, results, fate])
    try:
        SCHED[0].run_all()
    except InsufficientFundsError:
        return 'VIOLATION: harness (insufficient funds escaped a builder)'
    except Exception as e:
        return 'VIOLATION: a concurrent build raised %s' % type(e).__name__
    # holding intervals: between its ('built') and ('finished') records a builder holds its selection
    holding = []
    for kind, sel in results:
        if kind == 'built':
            for txo in sel:
                for held in holding:
                    for h in held:
                        if h is txo:
                            return 'VIOLATION: an output was selected while another unfinished build held it'
            holding.append(sel)
        elif kind == 'finished':
            holding = [h for h in holding if h is not sel]
    spent_twice = []
    for t in ledger.db.spent:
        for s in spent_twice:
            if s is t:
                return 'VIOLATION: one output spent by two broadcast transactions'
        spent_twice.append(t)
    if ledger.db.reserved:
        return 'VIOLATION: outputs still reserved after every build finished or failed'
    return 'ok'


class _Patch:
    def __enter__(self):
        self.old = coinselection.Random
        coinselection.Random = StubRandom

    def __exit__(self, *a):
        coinselection.Random = self.old


def sym_setup(vm, job):
    coinselection.Random = StubRandom
    if job.get('family') == 'sql':
        from harness import C09
        C09.sym_setup(vm, job)
        vm.register_helper('reserved_rows', spend_sql.reserved_rows)


class _Both:
    def __init__(self, *ctxs):
        self.ctxs = ctxs

    def __enter__(self):
        for c in self.ctxs:
            c.__enter__()

    def __exit__(self, *a):
        for c in reversed(self.ctxs):
            c.__exit__(*a)


def native_setup(nvm, job):
    if job.get('family') == 'sql':
        from harness import C09
        return _Both(_Patch(), C09.native_setup(nvm, job))
    return _Patch()


def spend_sql_job(vm, n_utxo, strategies):
    return spend_sql.spend(vm, n_utxo, strategies)


def jobs(tier):
    out = []
    for strat in ((None, 'prefer_confirmed') if tier == 'quick' else
                  (None, 'prefer_confirmed', 'only_confirmed', 'branch_and_bound', 'closest_match', 'random_draw')):
        sname = strat or 'default'
        out.append(dict(name=f'select-2builders-2utxo-{sname}', family='select', fn='select_only', args=(2, 2, strat),
                        loop_bound=300, max_depth=60, cost=500, bounds=dict(builders=2, utxos=2, strategy=sname,
                                                                            schedule='every interleaving at db awaits'),
                        must_reach=('ok-2-funded', 'ok-1-funded')))
    if tier == 'thorough':
        out.append(dict(name='select-3builders-2utxo-default', family='select', fn='select_only', args=(3, 2, None), loop_bound=300,
                        max_depth=60, cost=5000, bounds=dict(builders=3, utxos=2, strategy='default', schedule='every interleaving')))
        for fates in ((False, False), (False, True), (True, False), (True, True)):
            tag = ''.join('B' if f else 'A' for f in fates)
            out.append(dict(name=f'create-2builders-2utxo-default-{tag}', family='create', fn='create_concurrent',
                            args=(2, 2, None, fates), loop_bound=300, max_depth=60, cost=5000,
                            bounds=dict(builders=2, utxos=2, strategy='default', fates=tag + ' (A abandon, B broadcast)',
                                        schedule='every interleaving at db awaits'), must_reach=('ok',)))
    else:
        out.append(dict(name='create-2builders-1utxo-default', family='create', fn='create_concurrent', args=(2, 1, None),
                        loop_bound=300, max_depth=60, cost=1000,
                        bounds=dict(builders=2, utxos=1, strategy='default', fates='broadcast or abandon, symbolic',
                                    schedule='every interleaving at db awaits'), must_reach=('ok',)))
    for nb in ((1,) if tier == 'quick' else (1, 2)):
        out.append(dict(name=f'create-{nb}builders-2utxo-inputs-only', family='create', fn='create_concurrent',
                        args=(nb, 2, None, None, True), loop_bound=300, max_depth=60, cost=1000 * nb,
                        bounds=dict(builders=nb, utxos='2, amounts 0..1e9', outputs='none (several selection rounds per build)',
                                    schedule='every interleaving at db awaits'), must_reach=('ok',)))
    for strategies, n_utxo in (((('sqlite',), 3), ((None,), 2)) if tier == 'quick' else tuple(((x,), 3) for x in spend_sql.STRATEGIES)):
        sname = '+'.join(str(x or 'default') for x in strategies)
        out.append(dict(name=f'real-db-2builds-{n_utxo}utxo-{sname}', family='sql', fn='spend_sql_job', args=(n_utxo, strategies), loop_bound=2000, max_depth=80,
                        cost=3000, bounds=dict(database='real sqlite3, real schema, filled by the real sync code', utxos=n_utxo,
                                               utxo_amounts=str(spend_sql.UTXO_CATALOGUE), payments=str(spend_sql.PAY_CATALOGUE), strategy=sname,
                                               builds='2 in sequence, the first still in flight; optionally the funding transactions confirm '
                                               'and are saved again in between; then the first is abandoned'),
                        must_reach=('ok', 'ok-both-funded') if strategies[0] in spend_sql.ACCUMULATING else ('ok',)))
    return out


def finding_key(job, verdict, inputs, named):
    return f'{job.get("family")}|{verdict}'


def _no_lock(node):
    """Canary: drop the reservation lock (async with -> plain block)."""
    import ast
    for i, n in enumerate(node.body):
        if isinstance(n, ast.AsyncWith):
            node.body[i:i + 1] = n.body
            return True
    return False


def _reserve_after_return(node):
    import ast
    for n in ast.walk(node):
        if isinstance(n, ast.If) and isinstance(n.test, ast.Name) and n.test.id == 'spendables':
            n.body = [ast.Pass()]
            return True
    return False


def _sqlite_chooser_reserves_nothing(node):
    """Canary: the sqlite chooser returns its selection without marking it reserved."""
    import ast
    for n in ast.walk(node):
        if isinstance(n, ast.If) and ast.unparse(n.test) == 'set_reserved':
            n.test = ast.Constant(False)
            return True
    return False


def _resave_drops_reservation(node):
    """Canary: saving a transaction again rewrites its output rows (and with them the reservation flag)."""
    import ast
    hit = False
    for n in ast.walk(node):
        if isinstance(n, ast.keyword) and n.arg == 'ignore_duplicate':
            n.arg = 'replace'
            hit = True
    return hit


CANARIES = [
    dict(name='sqlite-chooser-reserves-nothing', target='lbry.wallet.database:get_and_reserve_spendable_utxos', mutate=_sqlite_chooser_reserves_nothing,
         job=dict(family='sql', fn='spend_sql_job', args=(2, ('sqlite',)), loop_bound=2000, max_depth=80)),
    dict(name='resave-drops-reservation', target='lbry.wallet.database:Database._transaction_io', mutate=_resave_drops_reservation,
         job=dict(family='sql', fn='spend_sql_job', args=(2, ('sqlite',)), loop_bound=2000, max_depth=80)),
    dict(name='no-reservation-lock', target='lbry.wallet.ledger:Ledger.get_spendable_utxos', mutate=_no_lock,
         job=dict(family='select', fn='select_only', args=(2, 2, None), loop_bound=300, max_depth=60)),
    dict(name='selection-not-reserved', target='lbry.wallet.ledger:Ledger.get_spendable_utxos', mutate=_reserve_after_return,
         job=dict(family='select', fn='select_only', args=(2, 2, None), loop_bound=300, max_depth=60)),
]
