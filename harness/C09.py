"""C09 - wallet sync converges to the server's history, balance and UTXO set (the Python side over a real in-memory sqlite).

Interpreted from /repo: Ledger.{update_history, get_local_status_and_history, request_synced_transactions, request_transactions,
_single_batch, maybe_verify_transaction, _sync_and_save_batch, _sync, get_address_manager_for_address, announce_addresses,
subscribe_addresses}, Database.{_transaction_io, save_transaction_io_batch, tx_to_row, txo_to_row, _insert_sql, set_address_history,
get_address(es), select_addresses, get_txos, select_txos, get_transaction(s), get_utxos, get_balance, add_keys, ...} with
constraints_to_sql / query, HierarchicalDeterministic.{ensure_address_gap, _generate_keys, get_public_key}, the BIP32 public
derivation and Transaction(raw) parsing.  sqlite itself is the real C library working on an in-memory database with the real
schema (every statement reaches it with concrete arguments); AIOSQLite's thread pools and the network are stand-ins."""
import sqlite3
from binascii import hexlify, unhexlify
from collections import defaultdict

from lbry.crypto.hash import sha256
from lbry.wallet.account import Account, HierarchicalDeterministic
from lbry.wallet.database import Database, dict_row_factory
from lbry.wallet.ledger import Ledger
from lbry.wallet.transaction import Transaction, Output, Input
from lbry.wallet.script import OutputScript
from lbry.wallet.hash import TXRefImmutable
from lbry.wallet.wallet import Wallet
from symvm.sched import Sched

LEVEL_TEXT = ('Bounded model checking over server histories and schedules: a solver-chosen chain of up to n transactions that fund, '
              'spend and re-spend wallet addresses (plus third-party outputs), growing in two stages with mempool transactions confirming '
              'in between, is served by a stand-in network; the real update_history tasks for the affected addresses run concurrently '
              'under a scheduler whose choice of the next runnable task at every network/database await is a solver-chosen input; after '
              'every stage the stored histories, the UTXO set and balance read back through the real SQL, and the address gap are compared '
              'with an independent reference computed from the server state.')
LEVEL_NOTE = ('All data on a path is concrete (transaction ids are real hashes and are used as dictionary keys and SQL values), so the solver '
              'only decides which choices and schedules exist; the deciding step is the exhaustive exploration of the decision tree by the '
              'symbolic VM, each path replayed natively.  Trusted: the interpreter, the scheduler (one task runs at a time, hand-over only '
              'at stub awaits), the synchronous stand-in for AIOSQLite (one connection, db.run = one SQL transaction), sqlite.  Claims and supports: two fixed four-transaction '
              'histories (publish-update-abandon of an unsigned stream claim; own support, received tip, undecodable claim, claim without a known type, unlock) over '
              'every staging and notification order - the protobuf runtime is called natively on concrete claim bytes.  NOT covered: '
              'signed claims, channels, purchases, solver-chosen claim shapes, more than 100 transactions per address (batching), reorgs, several accounts, '
              'header/merkle verification (C08), real network errors and retries.')
ASSUMPTIONS = [
    'network stand-in: get_history / get_transaction_batch / subscribe_address answer from the current server state; the server never '
    'retracts a transaction; a mempool transaction has height 0, or -1 when one of its parents is unconfirmed',
    'AIOSQLite stand-in: one real sqlite3 in-memory connection with the real schema; execute_fetchall/executemany/run apply at once and '
    'atomically; every call is a scheduling point (see the job bounds for the granularity)',
    'model lock with asyncio.Lock semantics for the per-address update locks and the address generator lock; asyncio.gather runs its '
    'coroutines one after the other',
    'headers stand-in: block h holds exactly the h-th transaction (merkle root = its hash, empty branch): every confirmed transaction is '
    'verified by the real maybe_verify_transaction, mempool transactions are not',
]
OUTSIDE = ['claims signed by channels, channel keys, purchases, claim shapes other than the two fixed histories', 'more than 100 transactions per address', 'several accounts and wallets',
           'the real AIOSQLite executor threads', 'network failures', 'merkle verification']

TECHNIQUE = ('bounded symbolic execution of the real Python source (symvm): the shape of the server history, the staging and the schedule of the '
             'concurrent update tasks are solver-chosen inputs, z3 decides which choices exist, the decision tree is explored exhaustively and every '
             'path is replayed natively; sqlite runs for real on an in-memory database')
BUDGET_S = {'thorough': 5400}        # runaway guard only (the claims/supports race jobs add about ten minutes)
VM = [None]
DEBUG = bool(__import__('os').environ.get('C09_DEBUG'))
SCHED = [None]
SEED = ('carbon smart garage balance margin twelve chest sword toast envelope bottom stomach absent')
GAP = 2
AMOUNTS = [1 << (20 + i) for i in range(16)]


# ------------------------------------------------------------------------------------------------ stand-ins
PREEMPT = [None]     # context bound of the race jobs (None: unbounded)
GRAIN = [1]          # scheduling points: 0 = database writes, 1 = + network calls, 2 = every database call and network call


def point(why):
    s = SCHED[0]
    if s is not None and (why != 'net' or GRAIN[0] >= 1):
        s.yield_(why)


class ModelLock:
    def __init__(self):
        self.locked_ = False

    def locked(self):
        return self.locked_

    async def __aenter__(self):
        while self.locked_:
            SCHED[0].block_on(self)
        self.locked_ = True

    async def __aexit__(self, *a):
        self.locked_ = False
        return False


class SyncSQLite:
    """What Database needs of AIOSQLite, over one real in-memory connection."""

    def __init__(self):
        self.conn = sqlite3.connect(':memory:', isolation_level=None, check_same_thread=False)
        self.conn.row_factory = dict_row_factory
        self.writer_connection = self.conn

    async def executescript(self, script):
        return self.conn.executescript(script)

    async def execute_fetchall(self, sql, parameters=None, read_only=False):
        if GRAIN[0] >= 2 or not sql.lstrip().upper().startswith('SELECT'):
            point('db')
        return self.conn.execute(sql, parameters if parameters is not None else []).fetchall()

    async def execute_fetchone(self, sql, parameters=None, read_only=False):
        if GRAIN[0] >= 2 or not sql.lstrip().upper().startswith('SELECT'):
            point('db')
        return self.conn.execute(sql, parameters if parameters is not None else []).fetchone()

    async def execute(self, sql, parameters=None):
        point('db')
        return self.conn.execute(sql, parameters if parameters is not None else [])

    async def executemany(self, sql, params):
        params = list(params)
        point('db')
        return self.conn.executemany(sql, params).fetchall()

    async def run(self, fun, *args, **kwargs):
        point('db')
        self.conn.execute('begin')
        try:
            result = fun(self.conn, *args, **kwargs)
        except BaseException:
            self.conn.execute('rollback')
            raise
        self.conn.execute('commit')
        return result


class Headers:
    """The header chain as far as the server has confirmed transactions: block h (1..confirmed) holds exactly transaction h-1, so its
    merkle root is that transaction's hash and the proof is the empty branch at position 0 - the real maybe_verify_transaction /
    get_root_of_merkle_tree verify every confirmed transaction (the proof logic itself is C08's subject)."""
    checkpoints = {}
    server = None

    def __len__(self):
        return self.server.confirmed + 1 if self.server is not None else 0

    @property
    def height(self):
        return len(self) - 1

    async def get(self, height):
        return {'merkle_root': self.server.world['txids'][height - 1].encode(), 'block_height': height}

    def estimated_julian_day(self, height):
        return 0


class Server:
    """The server's view: transactions 0..n-1 of which the first `confirmed` are in blocks (height = index + 1)."""

    def __init__(self, world):
        self.world = world
        self.n = 0
        self.confirmed = 0

    def height(self, k):
        if k < self.confirmed:
            return k + 1
        for parent in self.world['parents'][k]:
            if parent >= self.confirmed:
                return -1
        return 0

    def history(self, address):
        return [(self.world['txids'][k], self.height(k)) for k in range(self.n) if address in self.world['touches'][k]]

    def status(self, address):
        h = ''.join('%s:%d:' % item for item in self.history(address))
        return hexlify(sha256(h.encode())).decode() if h else None


class Network:
    is_connected = True
    client = None

    def __init__(self, server):
        self.server = server
        self.subscribed = []
        self.told = {}              # the status last reported per address

    def retriable_call(self, function, *args, **kwargs):
        return function(*args, **kwargs)

    async def get_history(self, address):
        point('net')
        return [{'tx_hash': txid, 'height': height} for txid, height in self.server.history(address)]

    async def get_transaction_batch(self, txids, restricted=True):
        txids = list(txids)
        point('net')
        out = {}
        for txid in txids:
            k = self.server.world['txids'].index(txid)
            if k >= self.server.n:
                raise KeyError(txid)
            height = self.server.height(k)
            out[txid] = (self.server.world['raws'][k], {'block_height': height, 'merkle': [], 'pos': 0} if height > 0 else {'block_height': height})
        return out

    async def subscribe_address(self, *addresses):
        point('net')
        for a in addresses:
            if a not in self.subscribed:
                self.subscribed.append(a)
            self.told[a] = self.server.status(a)
        return [self.told[a] for a in addresses]


class Events:
    def __init__(self):
        self.events = []

    def add(self, event):
        self.events.append(event)
        return Done()


class Done:
    def __await__(self):
        return self
        yield

    def __iter__(self):
        return self

    def __next__(self):
        raise StopIteration(None)

    def __vm_await__(self, vm):
        return None


class Tasks:
    """Ledger._update_tasks: a new task is handed to the scheduler."""

    def __init__(self, results):
        self.results = results

    def add(self, coro):
        SCHED[0].spawn(run_task, [VM[0], coro, self.results])


def run_task(vm, coro, results):
    results.append(vm.await_(coro))


async def gather(*coros):
    out = []
    for c in coros:
        out.append(await c)
    return out


class StubLedger:
    """The real Ledger methods on an object that has none of the event-loop machinery of Ledger.__init__."""
    for _name in ('update_history', 'get_local_status_and_history', 'request_synced_transactions', 'request_transactions',
                  '_single_batch', 'maybe_verify_transaction', 'maybe_has_channel_key', '_sync_and_save_batch', '_sync',
                  'get_address_manager_for_address', 'announce_addresses', 'subscribe_addresses', 'process_status_update',
                  'add_account', 'get_utxos', 'get_txos', 'get_addresses', 'constraint_spending_utxos', 'get_spendable_utxos',
                  'get_effective_amount_estimators', 'reserve_outputs', 'release_outputs', 'release_tx'):
        locals()[_name] = Ledger.__dict__[_name]
    del _name
    for _name in ('hash160_to_address', 'hash160_to_script_address', 'public_key_to_address', 'get_id', 'is_pubkey_address',
                  'is_script_address', 'get_root_of_merkle_tree'):
        locals()[_name] = Ledger.__dict__[_name]
    del _name
    address_to_hash160 = Ledger.__dict__['address_to_hash160']
    symbol, network_name = Ledger.symbol, Ledger.network_name
    pubkey_address_prefix = Ledger.pubkey_address_prefix
    script_address_prefix = Ledger.script_address_prefix
    extended_public_key_prefix = Ledger.extended_public_key_prefix
    extended_private_key_prefix = Ledger.extended_private_key_prefix
    secret_prefix = Ledger.secret_prefix

    def __init__(self, db, network, results):
        self.config = {}
        self.db = db
        db.ledger = self
        self.headers = Headers()
        self.headers.server = getattr(network, 'server', None)
        self.network = network
        self.accounts = []
        self._on_transaction_controller = Events()
        self._on_address_controller = Events()
        self._tx_cache = {}
        self._update_tasks = Tasks(results)
        self._address_update_locks = defaultdict(ModelLock)
        self._known_addresses_out_of_sync = set()
        self._balance_cache = {}


# ------------------------------------------------------------------------------------------------ the world
_WALLET = {}


def wallet_addresses(n):
    """Receiving addresses 0..n-1 of the fixed seed and the account's extended public key, derived natively by the real code
    (reference side; the wallet under test derives its own from the extended public key)."""
    if n not in _WALLET:
        account = Account.from_dict(_Bare(), Wallet(), {'seed': SEED, 'address_generator': {'name': 'deterministic-chain'}})
        _WALLET[n] = ([account.receiving.get_public_key(i).address for i in range(n)], account.public_key.extended_key_string(),
                      [account.change.get_public_key(i).address for i in range(3)])
    return _WALLET[n]


class _Bare(StubLedger):
    def __init__(self):
        self.accounts = []
        self.config = {}
        self.db = None


def build_world(spec, addresses, change=(), amounts=None):
    """Real raw transactions for the chosen shape.  spec: list of (source, [destinations]); source -1 = an outpoint the wallet
    knows nothing about, otherwise the index of an earlier wallet-owned, still unspent output in `owned`; destination d <
    len(addresses) pays that wallet address, len(addresses) a foreign key hash, len(addresses)+1 a foreign script hash."""
    txs, raws, txids, parents, touches, owned, spent = [], [], [], [], [], [], []
    kinds = {}                  # index into `owned` -> 'claim' / 'support' (absent: an ordinary payment)
    first_inputs = []           # per transaction: the `owned` index its input 0 spends, or -1
    amount_i = 0
    for k, (source, dests) in enumerate(spec):
        tx = Transaction()
        touch, par = [], []
        first_inputs.append((source[0] if isinstance(source, tuple) else source))
        for src in (source if isinstance(source, tuple) else (source,)):
            if src < 0:
                ref = TXRefImmutable.from_id(('%02x' % (0xe0 + k)) * 32, 1)
                prev = Output.pay_pubkey_hash(10 ** 9, bytes([0xe0 + k]) * 20)
                prev.tx_ref, prev.position = ref, 0
                tx.add_inputs([Input.spend(prev)])
            else:
                ok, opos, oaddr = owned[src]
                spent.append(src)
                prev = txs[ok].outputs[opos]
                tx.add_inputs([Input.spend(prev)])
                if oaddr not in touch:
                    touch.append(oaddr)
                if ok not in par:
                    par.append(ok)
        for d in dests:
            amount = (amounts or AMOUNTS)[amount_i]
            amount_i += 1
            if d < N_DEST:
                tx.add_outputs([Output.pay_pubkey_hash(amount, Ledger.address_to_hash160(addresses[d]))])
                touch.append(addresses[d])
                owned.append((k, len(tx.outputs) - 1, addresses[d]))
            elif d == CHANGE0:
                tx.add_outputs([Output.pay_pubkey_hash(amount, Ledger.address_to_hash160(change[0]))])
                touch.append(change[0])
                owned.append((k, len(tx.outputs) - 1, change[0]))
            elif d in LOCKED_KINDS:
                kind, ai = LOCKED_KINDS[d]
                pkh = Ledger.address_to_hash160(addresses[ai])
                if kind == 'claim':
                    tx.add_outputs([Output.pay_claim_name_pubkey_hash(amount, 'name%d' % k, _stream_claim(k), pkh)])
                elif kind == 'claim-undecodable':          # claim bytes that are no protobuf message: still a claim output
                    tx.add_outputs([Output(amount, OutputScript.pay_claim_name_pubkey_hash(b'junk', b'\xff\xfe\xfd', pkh))])
                elif kind == 'claim-no-type':              # a payload that decodes but names no claim type this version knows (empty message)
                    tx.add_outputs([Output(amount, OutputScript.pay_claim_name_pubkey_hash(b'future', b'\x00', pkh))])
                elif kind == 'update':
                    tx.add_outputs([Output.pay_update_claim_pubkey_hash(amount, 'name%d' % k, '%02x' % (0xc0 + k) * 20, _stream_claim(k), pkh)])
                else:
                    tx.add_outputs([Output.pay_support_pubkey_hash(amount, 'name%d' % k, '%02x' % (0xc0 + k) * 20, pkh)])
                touch.append(addresses[ai])
                owned.append((k, len(tx.outputs) - 1, addresses[ai]))
                kinds[len(owned) - 1] = 'support' if kind == 'support' else 'claim'
            elif d == FOREIGN_KEY:
                tx.add_outputs([Output.pay_pubkey_hash(amount, bytes([0x70 + k]) * 20)])
            else:
                tx.add_outputs([Output.pay_script_hash(amount, bytes([0x90 + k]) * 20)])
        txs.append(tx)
        raws.append(hexlify(tx.raw).decode())
        txids.append(tx.id)
        parents.append(par)
        touches.append(touch)
    unspent = [(txids[k], pos, addr, txs[k].outputs[pos].amount) for i, (k, pos, addr) in enumerate(owned) if i not in spent]
    return dict(change=list(change), raws=raws, txids=txids, parents=parents, touches=touches, owned=owned, spent=spent, unspent=unspent,
                kinds=kinds, first_inputs=first_inputs, amounts=[[o.amount for o in tx.outputs] for tx in txs])


N_DEST = 3          # receiving addresses 0..2 may be paid; 2 lies beyond the initial gap
FOREIGN_KEY, FOREIGN_SCRIPT = N_DEST, N_DEST + 1
CHANGE0 = N_DEST + 2      # the first address of the change chain (change gap 1)
# value locked in claims and supports: destination code -> (script kind, wallet receiving address index)
CLAIM_A0, SUPPORT_A1, CLAIM_BAD_A1, UPDATE_A0, SUPPORT_A0, CLAIM_EMPTY_A0 = N_DEST + 3, N_DEST + 4, N_DEST + 5, N_DEST + 6, N_DEST + 7, N_DEST + 8
LOCKED_KINDS = {CLAIM_A0: ('claim', 0), SUPPORT_A1: ('support', 1), CLAIM_BAD_A1: ('claim-undecodable', 1), UPDATE_A0: ('update', 0),
                SUPPORT_A0: ('support', 0), CLAIM_EMPTY_A0: ('claim-no-type', 0)}


def _stream_claim(k):
    from lbry.schema.claim import Claim
    claim = Claim()
    claim.stream.title = 'title %d' % k
    claim.stream.source.media_type = 'text/plain'
    return claim


def choose_world(vm, n_tx, first_rich, two_inputs=True):
    """Solver-chosen shape of the transaction chain.  Every transaction has one input - an outpoint the wallet knows nothing about
    or a still unspent output paying the wallet (optionally a second such input) - a first output to one of the wallet addresses or a foreign key hash, and
    optionally a second output: a third-party script hash, or wallet address 0 or 1."""
    spec = []
    unspent_owned = []          # indices into `owned` (in creation order) still unspent
    owned_count = 0
    for k in range(n_tx):
        if k == 0 and first_rich == 'fixed':          # the first transaction simply funds wallet address 0
            spec.append((-1, [0]))
            unspent_owned.append(0)
            owned_count = 1
            continue
        src = vm.pick('source', 1 + len(unspent_owned))
        if src == 0:
            source = -1
        else:
            source = unspent_owned.pop(src - 1)
            if two_inputs and unspent_owned:
                second_in = vm.pick('second_input', 1 + len(unspent_owned))
                if second_in:
                    source = (source, unspent_owned.pop(second_in - 1))
        dests = [vm.pick('pays', N_DEST + 1)]
        second = vm.pick('second_output', 4 if (k > 0 or first_rich is True) else 2)
        if second:
            dests.append((FOREIGN_SCRIPT, 0, 1)[second - 1])
        for d in dests:
            if d < N_DEST:
                unspent_owned.append(owned_count)
                owned_count += 1
        spec.append((source, dests))
    return spec


# ------------------------------------------------------------------------------------------------ the reference
LOCKED = [None]     # expected_view's second result: (txid, position) -> (claim / support / tip, amount)


def expected_view(world, server, addresses):
    """What a synced wallet must show: reachable addresses (gap rule), their histories, the unspent outputs paying them."""
    used = set()
    for k in range(server.n):
        used.update(world['touches'][k])
    known = GAP
    while True:
        last_used = -1
        for i in range(min(known, len(addresses))):
            if addresses[i] in used:
                last_used = i
        if last_used + 1 + GAP <= known:
            break
        known = last_used + 1 + GAP
    change = world.get('change', [])
    known_change = 1
    while known_change <= len(change) and change[known_change - 1] in used:
        known_change += 1                            # change gap 1: one unused address follows the last used one
    reachable = list(addresses[:known]) + list(change[:known_change])
    utxos = {}
    locked = {}
    for i, (k, pos, addr) in enumerate(world['owned']):
        if k >= server.n or addr not in reachable:
            continue
        spender = None
        for j in range(server.n):
            sp = world['spends'][j]
            if (i in sp) if isinstance(sp, tuple) else (sp == i):
                spender = j
        if spender is None:
            kind = world.get('kinds', {}).get(i)
            if kind is None:
                utxos[(world['txids'][k], pos)] = world['amounts'][k][pos]
            else:
                # value locked in a claim or support: not spendable, reported apart.  A support is the wallet's own when the first
                # input of its transaction spends an output the wallet knows, otherwise it is a tip received
                fi = world['first_inputs'][k]
                mine = fi >= 0 and world['owned'][fi][2] in reachable
                locked[(world['txids'][k], pos)] = (kind if kind == 'claim' else ('support' if mine else 'tip'), world['amounts'][k][pos])
    LOCKED[0] = locked
    return known, utxos, known_change


# ------------------------------------------------------------------------------------------------ the scenario
class SeqSched:
    """Run-to-completion scheduling: the tasks of a stage run one after the other in a solver-chosen order (no threads, so the
    exploration can fork at every choice)."""

    def __init__(self, vm, all_orders=True):
        self.vm = vm
        self.tasks = []
        self.all_orders = all_orders
        self.reverse = None

    def spawn(self, fn, args):
        self.tasks.append((fn, args))

    def yield_(self, why=''):
        pass

    def block_on(self, lock):
        raise RuntimeError('a lock is contended although tasks run to completion')

    def run_all(self):
        while self.tasks:
            if len(self.tasks) < 2:
                i = 0
            elif self.all_orders:
                i = self.vm.pick('order', len(self.tasks))
            else:
                if self.reverse is None:
                    self.reverse = self.vm.pick('newest_notification_first', 2)
                i = len(self.tasks) - 1 if self.reverse else 0
            if DEBUG:
                print("seq tasks", len(self.tasks), i)
            fn, args = self.tasks.pop(i)
            fn(*args)


def first_addresses(vm, account):
    vm.await_(account.ensure_address_gap())


def new_sched(vm, race):
    return Sched(vm, max_steps=400, preempt_bound=PREEMPT[0]) if race else SeqSched(vm, race is False)


def sync(vm, spec, race, grain, duplicate, first_rich=False, stages=2, preempt=None, overlap=False):
    """spec: a number of transactions (the shape is then solver-chosen) or a fixed shape."""
    VM[0] = vm
    GRAIN[0] = grain
    PREEMPT[0] = preempt
    addresses, xpub, change = vm.wallet_addresses(N_DEST + 2 * GAP)
    if isinstance(spec, int):
        spec = choose_world(vm, spec, first_rich)
    n_tx = len(spec)
    world = vm.build_world(spec, addresses, change)
    world['spends'] = [s for s, _ in spec]
    n1 = 1 + vm.pick('stage1_txs', n_tx) if stages == 2 else n_tx
    c1 = vm.pick('stage1_confirmed', n1 + 1)
    c2 = n_tx if (stages == 2 and c1 < n_tx and vm.pick('all_confirmed_at_the_end', 2)) else c1

    server = Server(world)
    network = Network(server)
    db = Database(':memory:')
    db.db = SyncSQLite()
    db.db.conn.executescript(Database.CREATE_TABLES_QUERY)
    results = []
    ledger = StubLedger(db, network, results)
    account = Account.from_dict(ledger, Wallet(), {
        'public_key': xpub, 'address_generator': {'name': 'deterministic-chain', 'receiving': {'gap': GAP, 'maximum_uses_per_address': 1},
                                                  'change': {'gap': 1, 'maximum_uses_per_address': 1}}})
    account.receiving.address_generator_lock = ModelLock()
    account.change.address_generator_lock = ModelLock()
    ledger.add_account(account)
    SCHED[0] = SeqSched(vm, False)
    SCHED[0].reverse = 0                                # nothing on the server yet: the order of the first (empty) updates is immaterial
    SCHED[0].spawn(first_addresses, [vm, account])     # initial addresses; nothing on the server yet
    SCHED[0].run_all()
    for a in network.subscribed:
        network.told[a] = None
    second = not (n_tx == n1 and c2 == c1)                                         # is there anything new in stage 2?
    if overlap and second:
        # one scheduler for both stages: the server moves on (and sends the next notifications) while the first updates still run
        server.n, server.confirmed = n1, c1
        SCHED[0] = new_sched(vm, race)
        notify(vm, network, ledger, results, duplicate)
        SCHED[0].spawn(next_stage, [vm, server, network, ledger, results, n_tx, c2])
        try:
            SCHED[0].run_all()
        except Exception as e:
            if DEBUG:
                raise
            return 'VIOLATION: update_history raised %s' % type(e).__name__
        SCHED[0] = None
        verdict = compare(vm, world, server, addresses, db, account, ledger, results)
        return (verdict + ' (after overlapping stages)') if verdict else 'ok'
    for stage, (n, confirmed) in enumerate(((n1, c1), (n_tx, c2))):
        if stage == 1 and not second:
            break
        server.n, server.confirmed = n, confirmed
        SCHED[0] = new_sched(vm, race)
        notify(vm, network, ledger, results, duplicate)
        try:
            SCHED[0].run_all()
        except Exception as e:
            if DEBUG:
                raise
            return 'VIOLATION: update_history raised %s' % type(e).__name__
        SCHED[0] = None
        verdict = compare(vm, world, server, addresses, db, account, ledger, results)
        if verdict:
            return verdict + ' (after stage %d)' % (stage + 1)
    return 'ok'


def notify(vm, network, ledger, results, duplicate):
    """The server tells every subscribed address whose status changed since it last reported it."""
    notified = 0
    for a in list(network.subscribed):
        status = network.server.status(a)
        if network.told.get(a) != status:
            network.told[a] = status
            SCHED[0].spawn(run_task, [vm, ledger.update_history(a, status), results])
            notified += 1
            if duplicate and notified == 1:
                SCHED[0].spawn(run_task, [vm, ledger.update_history(a, status), results])


def next_stage(vm, server, network, ledger, results, n, confirmed):
    server.n, server.confirmed = n, confirmed
    notify(vm, network, ledger, results, False)


def compare(vm, world, server, addresses, db, account, ledger, results):
    known, utxos, known_change = expected_view(world, server, addresses)
    change = world.get('change', [])
    for r in results:
        if r is not True:
            return 'VIOLATION: update_history reported the address out of sync'
    if ledger._known_addresses_out_of_sync:
        return 'VIOLATION: an address is flagged out of sync'
    rows = db.db.conn.execute('select address, history, used_times from pubkey_address').fetchall()
    have = {}
    for row in rows:
        have[row['address']] = row
    generated = vm.await_(account.receiving.get_addresses())
    if sorted(generated) != sorted(addresses[:known]):
        if len(generated) < known:
            return 'VIOLATION: the address gap is not maintained (fewer addresses than last used + gap)'
        if DEBUG:
            print('generated', generated, 'expected', addresses[:known], 'known', known)
        return 'VIOLATION: other addresses generated than the chain prescribes'
    generated_change = vm.await_(account.change.get_addresses())
    if sorted(generated_change) != sorted(change[:known_change]):
        return 'VIOLATION: the change chain does not hold exactly the addresses up to last used + gap'
    for a in list(addresses[:known]) + list(change[:known_change]):
        if a not in ledger.network.subscribed:
            return 'VIOLATION: a generated address is not subscribed'
        want = ''.join('%s:%d:' % item for item in server.history(a))
        if (have[a]['history'] or '') != want:
            return 'VIOLATION: stored history differs from the server history'
        if have[a]['used_times'] != len(server.history(a)):
            return 'VIOLATION: used_times differs from the number of history entries'
    for k in range(server.n):
        reachable = False
        for a in world['touches'][k]:
            if a in addresses[:known] or a in change[:known_change]:
                reachable = True
        if reachable:
            row = db.db.conn.execute('select height, is_verified from tx where txid=?', (world['txids'][k],)).fetchone()
            if row is None:
                return 'VIOLATION: a transaction of the history is not stored'
            if row['height'] != server.height(k):
                return 'VIOLATION: a stored transaction does not carry the height the server reports'
            if bool(row['is_verified']) != (server.height(k) > 0):
                return 'VIOLATION: a stored transaction is not marked verified exactly when it is confirmed with a valid proof'
    got = vm.await_(account.get_utxos())
    got_map = {}
    for txo in got:
        got_map[(txo.tx_ref.id, txo.position)] = txo.amount
    if got_map != utxos:
        for key in utxos:
            if key not in got_map:
                return 'VIOLATION: an unspent output paying the wallet is missing from the spendable set'
        return 'VIOLATION: the spendable set holds an output that is spent or not the wallet\'s'
    balance = vm.await_(account.get_balance())
    if balance != sum(utxos.values()):
        return 'VIOLATION: balance differs from the sum of the unspent outputs'
    locked = LOCKED[0]
    if world.get('kinds'):
        want = {'claim': 0, 'support': 0, 'tip': 0}
        for kind, amount in locked.values():
            want[kind] += amount
        spendable = sum(utxos.values())
        reserved = want['claim'] + want['support'] + want['tip']
        total = vm.await_(account.get_balance(include_claims=True))
        if total != spendable + reserved:
            return 'VIOLATION: balance including claims differs from spendable funds + value locked in claims and supports'
        detail = vm.await_(account.get_detailed_balance())
        if detail['total'] != spendable + reserved or detail['available'] != spendable or detail['reserved'] != reserved:
            return 'VIOLATION: detailed balance does not report the locked value apart from the spendable funds'
        sub = detail['reserved_subtotals']
        if sub['claims'] != want['claim'] or sub['supports'] != want['support'] or sub['tips'] != want['tip']:
            return 'VIOLATION: detailed balance splits the locked value wrongly between claims, supports and tips'
        held = vm.await_(db.get_txos(accounts=[account], is_spent=False, no_tx=True, no_channel_info=True,
                                     txo_type__in=(1, 2, 3, 4, 5, 6)))
        held_map = {}
        for txo in held:
            held_map[(txo.tx_ref.id, txo.position)] = txo.amount
        want_map = {}
        for key in locked:
            want_map[key] = locked[key][1]
        if held_map != want_map:
            return 'VIOLATION: the unspent claim/support outputs listed differ from those on the server'
    return None


# ------------------------------------------------------------------------------------------------ runner interface
class _AsyncioShim:
    def __getattr__(self, name):
        import asyncio
        return getattr(asyncio, name)


_AsyncioShim.gather = staticmethod(gather)


def sym_setup(vm, job):
    import asyncio
    vm.register_helper('wallet_addresses', wallet_addresses)
    vm.register_helper('build_world', build_world)
    vm.models[id(asyncio.gather)] = lambda vm_, a, k: vm_.call(gather, list(a), k)
    vm._helpers.append(gather)
    vm.lazy_async.add('Ledger.update_history')       # handed to Ledger._update_tasks: runs as its own task


class _Native:
    def __enter__(self):
        import lbry.wallet.ledger as L
        self.saved = L.asyncio
        L.asyncio = _AsyncioShim()

    def __exit__(self, *a):
        import lbry.wallet.ledger as L
        L.asyncio = self.saved
        SCHED[0] = None


def native_setup(nvm, job):
    nvm.wallet_addresses = wallet_addresses
    nvm.build_world = build_world
    return _Native()


SHAPES = {
    # fund address 0, spend it to address 1 plus a third-party script output: the spender appears in two histories
    'spend-to-own': [(-1, [0]), (0, [1, FOREIGN_SCRIPT])],
    # pay address 1 (inside the gap) and address 2 (only generated once address 1 is seen used)
    'beyond-gap': [(-1, [1]), (-1, [2])],
    # one transaction pays two wallet addresses; the second output is then spent abroad
    'two-addresses': [(-1, [0, 1]), (1, [FOREIGN_KEY])],
    # one transaction pays two wallet addresses, a later one spends both outputs (two inputs from one funding transaction)
    'spend-both-outputs': [(-1, [0, 1]), ((0, 1), [FOREIGN_KEY])],
    # fund, spend to a stranger with change to the wallet, spend the change
    'change-chain': [(-1, [0]), (0, [FOREIGN_KEY, 1]), (1, [FOREIGN_KEY])],
    # fund, pay a stranger with change to the wallet's change chain, spend the change
    'to-change-chain': [(-1, [0]), (0, [FOREIGN_KEY, CHANGE0]), (1, [FOREIGN_KEY])],
    # two payments to one address
    'same-address-twice': [(-1, [0]), (-1, [0])],
    # fund; publish a claim from it (claim to address 0, change to address 1); update the claim; abandon it (value back to address 1)
    'claim-update-abandon': [(-1, [0]), (0, [CLAIM_A0, 1]), (1, [UPDATE_A0]), (3, [1])],
    # fund; support somebody's claim from own funds (+ change); receive a tip from a stranger; an undecodable claim; unlock the own support
    'support-tip-unlock': [(-1, [0]), (0, [SUPPORT_A1, 0]), (-1, [SUPPORT_A0, CLAIM_BAD_A1, CLAIM_EMPTY_A0]), (1, [FOREIGN_KEY, 1])],
}


GRAINS = ('database writes', 'database writes and network calls', 'every database call and network call')


def jobs(tier):
    out = []

    def seq(n, rich, orders=False):
        out.append(dict(name=f'seq-{n}tx{("-first-" + rich if isinstance(rich, str) else "-rich") if rich else ""}{"" if orders is False else "-2orders"}', family='seq', fn='sync',
                        args=(n, orders, 0, False, rich),
                        loop_bound=2000, max_depth=80, cost=300 * 40 ** (n - 1),
                        bounds=dict(transactions=n, shape='solver-chosen: source external or any unspent wallet output; first output to wallet '
                                    'address 0-2 or a foreign key; optional second output (foreign script hash, wallet address 0 or 1)',
                                    stages='2 (any split; any prefix confirmed, the rest in the mempool; optionally all confirmed at the end)',
                                    gap=GAP, schedule='notifications run to completion, ' + ('in every order' if orders is False else
                                                                                      'oldest first or newest first')), must_reach=('ok',)))

    def seq_shape(shape):
        out.append(dict(name=f'seq-{shape}', family='seq', fn='sync', args=(SHAPES[shape], False, 0, False), loop_bound=2000, max_depth=80, cost=100,
                        bounds=dict(shape=shape, transactions=len(SHAPES[shape]), stages='2 (any split and confirmation prefix)', gap=GAP,
                                    schedule='notifications run to completion in every order'), must_reach=('ok',)))

    def race(shape, grain, dup, stages, preempt, overlap=False):
        out.append(dict(name=f'race-{shape}-grain{grain}{"-dup" if dup else ""}-{stages}stage{"-overlap" if overlap else ""}-{"any" if preempt is None else preempt}switches',
                        family='race', fn='sync', args=(SHAPES[shape], True, grain, dup, False, stages, preempt, overlap), loop_bound=2000, max_depth=80,
                        cost=500 * 8 ** grain * stages ** 2 * (preempt or 4) ** 2,
                        bounds=dict(shape=shape, transactions=len(SHAPES[shape]),
                                    stages=('2 (any split and confirmation prefix)' + (', the second arriving while the updates of the first still run' if overlap else ''))
                                    if stages == 2 else '1 (all at once, any confirmation prefix)',
                                    gap=GAP, schedule='every interleaving of the concurrent update_history tasks with scheduling points at ' + GRAINS[grain] +
                                    (' and at most %d preemptions (switches away from a task that could continue)' % preempt if preempt is not None
                                     else ''), duplicate_notification=dup), must_reach=('ok',)))
    if tier == 'quick':
        seq(2, False, None)
        seq_shape('spend-both-outputs')
        seq_shape('to-change-chain')
        race('spend-to-own', 0, False, 1, 1)
        race('beyond-gap', 0, False, 1, 1)
        race('same-address-twice', 1, False, 2, 2, True)
        seq_shape('claim-update-abandon')
        seq_shape('support-tip-unlock')
    else:
        seq(2, True)
        seq(3, 'fixed', None)
        seq_shape('spend-both-outputs')
        seq_shape('to-change-chain')
        for shape in ('spend-to-own', 'two-addresses', 'spend-both-outputs'):
            race(shape, 0, True, 2, 2)
        for shape in ('beyond-gap', 'change-chain'):
            race(shape, 1, False, 1, 2)
        race('spend-to-own', 2, False, 1, 2)
        race('spend-to-own', 0, False, 1, 3)
        race('same-address-twice', 1, False, 2, 3, True)
        race('spend-to-own', 1, False, 2, 2, True)
        seq_shape('claim-update-abandon')
        seq_shape('support-tip-unlock')
        race('claim-update-abandon', 0, False, 2, 1)
        race('support-tip-unlock', 0, False, 2, 1)
    return out


def finding_key(job, verdict, inputs, named):
    return f'{job.get("family")}|{verdict}'


# ------------------------------------------------------------------------------------------------ canaries
def _no_pending_resolution(node):
    """_sync no longer links an input to the output of a transaction fetched in the same batch."""
    import ast
    for n in ast.walk(node):
        if isinstance(n, ast.If) and 'wanted_txid in pending_txs' in ast.unparse(n.test):
            n.test = ast.Constant(False)
            return True
    return False


def _no_gap_maintenance(node):
    """update_history no longer asks the address manager to top up the gap."""
    import ast
    for n in ast.walk(node):
        if isinstance(n, ast.If) and ast.unparse(n.test) == 'address_manager is not None' and 'ensure_address_gap' in ast.unparse(n):
            n.body = [ast.Pass()]
            return True
    return False


def _height_ignored_when_diffing(node):
    """update_history treats a known transaction id as synced whatever its height."""
    import ast
    for n in ast.walk(node):
        if isinstance(n, ast.Compare) and ast.unparse(n) == 'local_history[i] == (txid, remote_height)':
            n.left = ast.parse('local_history[i][0]', mode='eval').body
            n.comparators = [ast.Name(id='txid', ctx=ast.Load())]
            return True
    return False


def _only_my_inputs_recorded(node):
    """_transaction_io records outputs only for transactions that spend the address."""
    import ast
    for n in ast.walk(node):
        if isinstance(n, ast.BoolOp) and ast.unparse(n) == 'txo.pubkey_hash == txhash or is_my_input':
            n.values = [ast.Name(id='is_my_input', ctx=ast.Load()), ast.Name(id='is_my_input', ctx=ast.Load())]
            return True
    return False


def _no_address_lock(node):
    """update_history without the per-address lock."""
    import ast
    for i, n in enumerate(node.body):
        if isinstance(n, ast.AsyncWith):
            node.body[i:i + 1] = n.body
            return True
    return False


def _always_receiving_manager(node):
    """get_address_manager_for_address answers with the receiving chain whatever chain the address is on."""
    import ast
    for n in ast.walk(node):
        if isinstance(n, ast.Return) and n.value is not None and 'address_managers' in ast.unparse(n.value):
            n.value = ast.parse('account.receiving', mode='eval').body
            return True
    return False


def _claims_counted_as_spendable(node):
    """Account.get_balance no longer leaves claims and supports out of the spendable balance."""
    import ast
    for n in ast.walk(node):
        if isinstance(n, ast.If) and ast.unparse(n.test) == 'not include_claims':
            n.test = ast.Constant(False)
            return True
    return False


def _support_recorded_as_payment(node):
    """txo_to_row records a support output as an ordinary payment."""
    import ast
    for n in ast.walk(node):
        if isinstance(n, ast.Assign) and ast.unparse(n) == "row['txo_type'] = TXO_TYPES['support']":
            n.value = ast.parse("TXO_TYPES['other']", mode='eval').body
            return True
    return False


def _undecodable_claim_is_payment(node):
    """txo_to_row records a claim output whose bytes do not decode as an ordinary payment."""
    import ast
    for n in ast.walk(node):
        if isinstance(n, ast.If) and ast.unparse(n.test) == 'txo.can_decode_claim':
            n.orelse = [ast.parse("row['txo_type'] = TXO_TYPES['other']").body[0]]
            return True
    return False


_SEQ2 = dict(family='seq', fn='sync', args=(2, None, 0, False, False), loop_bound=2000, max_depth=80)
CANARIES = [
    dict(name='same-batch-spend-not-linked', target='lbry.wallet.ledger:Ledger._sync', mutate=_no_pending_resolution, job=_SEQ2),
    dict(name='gap-not-maintained', target='lbry.wallet.ledger:Ledger.update_history', mutate=_no_gap_maintenance, job=_SEQ2),
    dict(name='height-change-not-synced', target='lbry.wallet.ledger:Ledger.update_history', mutate=_height_ignored_when_diffing, job=_SEQ2),
    dict(name='received-outputs-not-recorded', target='lbry.wallet.database:Database._transaction_io', mutate=_only_my_inputs_recorded, job=_SEQ2),
    dict(name='change-chain-gap-not-maintained', target='lbry.wallet.ledger:Ledger.get_address_manager_for_address', mutate=_always_receiving_manager,
         job=dict(family='seq', fn='sync', args=(SHAPES['to-change-chain'], False, 0, False), loop_bound=2000, max_depth=80)),
    dict(name='claims-counted-as-spendable', target='lbry.wallet.account:Account.get_balance', mutate=_claims_counted_as_spendable,
         job=dict(family='seq', fn='sync', args=(SHAPES['claim-update-abandon'], False, 0, False), loop_bound=2000, max_depth=80)),
    dict(name='support-recorded-as-payment', target='lbry.wallet.database:Database.txo_to_row', mutate=_support_recorded_as_payment,
         job=dict(family='seq', fn='sync', args=(SHAPES['support-tip-unlock'], False, 0, False), loop_bound=2000, max_depth=80)),
    dict(name='undecodable-claim-is-payment', target='lbry.wallet.database:Database.txo_to_row', mutate=_undecodable_claim_is_payment,
         job=dict(family='seq', fn='sync', args=(SHAPES['support-tip-unlock'], False, 0, False), loop_bound=2000, max_depth=80)),
    dict(name='no-address-lock', target='lbry.wallet.ledger:Ledger.update_history', mutate=_no_address_lock,
         job=dict(family='race', fn='sync', args=(SHAPES['same-address-twice'], True, 1, False, False, 2, 2, True), loop_bound=2000, max_depth=80)),
]
