"""C01 - blob integrity: only bytes matching the SHA-384 name are ever accepted.

Interpreted from /repo: HashBlobWriter.{__init__,write,close_handle,calculate_blob_hash,closed},
AbstractBlob.{__init__,get_blob_writer (+ remove_writer, writer_finished_callback), save_verified_blob, set_length,
get_length, is_writeable, get_is_verified, close}, BlobBuffer.{__init__,_write_blob}, is_valid_blobhash - with a model
event loop (futures, events, call_soon queue drained after every write) and an ideal SHA-384."""
import asyncio

from lbry.blob import MAX_BLOB_SIZE
from lbry.blob.blob_file import BlobBuffer
from lbry.error import InvalidBlobHashError, InvalidDataError

LEVEL_TEXT = ('Bounded model checking of the real writer / blob state machine: the declared length is any integer, each of up '
              'to W writers sends correct, unrelated (any length, including the right one), over-long or half-correct data cut '
              'into up to c chunks at symbolic offsets (every chunking at once: chunks are opaque runs of symbolic length), and '
              'the interleaving of their writes is a sequence of solver-chosen writer indices; after every write the '
              'verified flag, the completed callback, the stored bytes, the futures and the other writers are checked.')
LEVEL_NOTE = ('Trusted: z3, the interpreter (every path replayed natively on the real classes with real SHA-384 over concrete '
              'content), the model event loop (done-callbacks run in FIFO order before the next write, as asyncio guarantees).  '
              'Assumed: SHA-384 is injective (ideal hash: the digest equals the blob name iff the transcript is exactly the '
              'committed content).  Outside: BlobFile\'s disk I/O, more writers/chunks/steps than the bound.')
ASSUMPTIONS = [
    'ideal SHA-384: hexdigest == blob hash iff the bytes fed to update() are exactly the committed content C[0:n]; distinct '
    'opaque runs have distinct contents',
    'model loop: call_soon callbacks and future done-callbacks are queued and drained FIFO after every writer.write(); '
    'create_task runs the (non-suspending) coroutine body at once and returns a finished future',
    'in-memory BlobBuffer; the on-disk BlobFile differs only in _write_blob/is_writeable (file system) and is outside',
]
OUTSIDE = ['SHA-384 itself', 'BlobFile disk writes and their failures', 'more than 3 writers / 3 chunks per writer']

LOOP = [None]
MIB2 = 2 * 2 ** 20


class ModelLoop:
    def __init__(self):
        self.ready = []

    def call_soon(self, cb, *args):
        self.ready.append((cb, args))

    def create_task(self, coro):
        t = ModelFuture()
        try:
            t.set_result(VM[0].await_(coro))       # coroutine bodies of the blob code never suspend
        except Exception as e:
            t.set_exception(e)
        return t

    def is_closed(self):
        return False

    def drain(self):
        n = 0
        while self.ready:
            cb, args = self.ready.pop(0)
            cb(*args)
            n += 1
            if n > 60:
                raise RuntimeError('model loop does not quiesce')


VM = [None]


class ModelFuture:
    def __init__(self, loop=None):
        self.state = 'pending'
        self.value = None
        self.callbacks = []
        self.loop = LOOP[0]        # finalizers of objects from an earlier (native) run must not post into a later loop

    def done(self):
        return self.state != 'pending'

    def cancelled(self):
        return self.state == 'cancelled'

    def _finish(self, state, value):
        if self.state != 'pending':
            raise asyncio.InvalidStateError('invalid state')
        self.state, self.value = state, value
        for cb in self.callbacks:
            self.loop.call_soon(cb, self)
        self.callbacks = []

    def set_result(self, v):
        self._finish('result', v)

    def set_exception(self, e):
        self._finish('exception', e)

    def cancel(self):
        if self.state != 'pending':
            return False
        self._finish('cancelled', None)
        return True

    def add_done_callback(self, cb):
        if self.state != 'pending':
            self.loop.call_soon(cb, self)
        else:
            self.callbacks.append(cb)

    def exception(self):
        if self.state == 'cancelled':
            raise asyncio.CancelledError()
        if self.state == 'pending':
            raise asyncio.InvalidStateError('not done')
        return self.value if self.state == 'exception' else None

    def result(self):
        if self.state == 'cancelled':
            raise asyncio.CancelledError()
        if self.state == 'pending':
            raise asyncio.InvalidStateError('not done')
        if self.state == 'exception':
            raise self.value
        return self.value


    def __vm_await__(self, vm):
        return self.result()               # the models only await futures that are already complete

    def __await__(self):
        return self.result()
        yield


class ModelEvent:
    def __init__(self):
        self.flag = False

    def is_set(self):
        return self.flag

    def set(self):
        self.flag = True

    def clear(self):
        self.flag = False


def make_chunks(vm, w, kind, content, n, max_chunks):
    """The byte stream of writer w, cut at solver-chosen offsets into 1..max_chunks chunks."""
    if kind == 0:                                   # the committed content
        stream, total = content, n
    elif kind == 1:                                 # unrelated bytes of any length (the right length included)
        total = vm.new_int('foreign_len', 1, 3 * 2 ** 20)
        stream = vm.new_run_of_len('X%d' % w, total)
    elif kind == 2:                                 # the committed content followed by extra bytes
        extra = vm.new_int('extra', 1, 1000)
        stream, total = content + vm.new_run_of_len('E%d' % w, extra), n + extra
    else:                                           # a correct prefix, then unrelated bytes
        keep = vm.new_int('keep', 0, MIB2)
        vm.assume(keep < n)
        rest = vm.new_int('rest', 1, MIB2)
        stream, total = content[:keep] + vm.new_run_of_len('Y%d' % w, rest), keep + rest
    nch = vm.pick('nchunks', max_chunks) + 1
    cuts = [0]
    for j in range(nch - 1):
        o = vm.new_int('cut', 0, 3 * 2 ** 20 + 1000)
        vm.assume(o >= cuts[-1])
        vm.assume(o <= total)
        cuts.append(o)
    cuts.append(total)
    return [stream[a:b] for a, b in zip(cuts, cuts[1:])]


def lying_length(vm, max_chunks):
    """The blob name is the hash of a content that is LONGER than the length the peer announces, and the peer then streams that
    genuine content: no string of the announced length has this digest, so the blob must never become verified - whatever the
    chunking (in particular a chunk that crosses the announced length and ends exactly at the end of the real content)."""
    VM[0] = vm
    LOOP[0] = ModelLoop()
    n = vm.new_int('announced_length', 1, MAX_BLOB_SIZE)
    d = vm.new_int('real_content_is_longer_by', 1, 1000)
    head = vm.new_run_of_len('C', n)
    real = head + vm.new_run_of_len('T', d)
    blob_hash = vm.blob_hash(real)
    completed = []
    blob = BlobBuffer(LOOP[0], blob_hash, None, lambda b: completed.append(b))
    blob.set_length(n)
    writer = blob.get_blob_writer('1.2.3.4', 3333)
    nch = vm.pick('nchunks', max_chunks) + 1
    cuts = [0]
    for j in range(nch - 1):
        o = vm.new_int('cut', 0, 3 * 2 ** 20 + 1000)
        vm.assume(o >= cuts[-1])
        vm.assume(o <= n + d)
        cuts.append(o)
    cuts.append(n + d)
    for a, b in zip(cuts, cuts[1:]):
        try:
            writer.write(real[a:b])
        except OSError:
            pass
        except Exception as e:
            return 'VIOLATION: writer.write raised %s' % type(e).__name__
        LOOP[0].drain()
        if blob.get_is_verified() or completed:
            return 'VIOLATION: the blob became verified although the received bytes do not have the announced length'
    fut = writer.finished
    if fut.state != 'exception' or not isinstance(fut.value, (InvalidDataError, InvalidBlobHashError)):
        return 'VIOLATION: a transfer longer than announced was not refused'
    if not writer.closed():
        return 'VIOLATION: the writer of a refused transfer stayed open'
    return 'ok'


def same_iteration(vm, n_losers):
    """Two or three transfers reach their end within ONE event-loop iteration: the winner's last write completes a correct copy and,
    before its completion callback has run, every other writer's last write ends its own transfer (wrong bytes of the right length, or
    too many bytes) - or stays pending.  Once the callbacks run the blob is verified with the committed bytes, the completed callback
    has run once, every writer is closed and deregistered, and nothing raises."""
    VM[0] = vm
    LOOP[0] = ModelLoop()
    n = vm.new_int('n', 1, MAX_BLOB_SIZE)
    content = vm.new_run_of_len('C', n)
    blob_hash = vm.blob_hash(content)
    completed = []
    blob = BlobBuffer(LOOP[0], blob_hash, None, lambda b: completed.append(b))
    blob.set_length(n)
    winner = blob.get_blob_writer('1.2.3.0', 3333)
    losers = []
    for w in range(n_losers):
        how = vm.pick('other_writer', 3)             # 0 still pending, 1 wrong bytes of the right length, 2 too many bytes
        wr = blob.get_blob_writer('1.2.3.%d' % (w + 1), 3333)
        if how == 1:
            data = vm.new_run_of_len('X%d' % w, n)
        elif how == 2:
            data = content + vm.new_run_of_len('E%d' % w, vm.new_int('extra', 1, 1000))
        else:
            data = None
        losers.append((wr, data, vm.pick('writes_before_the_winner', 2)))
    try:
        for wr, data, before in losers:
            if data is not None and before:
                wr.write(data)
        winner.write(content)
        for wr, data, before in losers:
            if data is not None and not before:
                try:
                    wr.write(data)
                except OSError:
                    pass
    except Exception as e:
        return 'VIOLATION: writer.write raised %s' % type(e).__name__
    try:
        LOOP[0].drain()                                # now the callbacks of this iteration run
    except Exception as e:
        return 'VIOLATION: a completion callback raised %s' % type(e).__name__
    if not blob.get_is_verified():
        return 'VIOLATION: a complete correct copy did not verify the blob'
    if not vm.same_bytes(blob._verified_bytes.getvalue(), content):
        return 'VIOLATION: the stored bytes are not the committed content'
    if len(completed) != 1:
        return 'VIOLATION: the completed callback ran %d times' % len(completed)
    for wr, data, before in losers:
        if not wr.closed():
            return 'VIOLATION: a writer was left open after the blob was verified'
    if not winner.closed() or blob.writers:
        return 'VIOLATION: writers are still registered after the blob was verified'
    return 'ok'


def run(vm, n_writers, max_chunks, steps, kinds):
    VM[0] = vm
    LOOP[0] = ModelLoop()
    n = vm.new_int('n', -3, 3 * 2 ** 20)             # declared length: any integer
    if not 0 <= n <= MAX_BLOB_SIZE:
        blob = BlobBuffer(LOOP[0], vm.blob_hash(None), None, None)
        blob.set_length(n)
        if blob.get_length() is not None:
            return 'VIOLATION: a declared length outside 0..2 MiB is accepted'
        return 'ok-length-refused'
    content = vm.new_run_of_len('C', n)
    blob_hash = vm.blob_hash(content)
    completed = []
    blob = BlobBuffer(LOOP[0], blob_hash, None, lambda b: completed.append(b))
    blob.set_length(n)
    if blob.get_length() is None:
        return 'VIOLATION: a declared length within 0..2 MiB is refused'
    writers = []
    for w in range(n_writers):
        kind = kinds[w] if kinds is not None else vm.pick('kind', 4)
        chunks = make_chunks(vm, w, kind, content, n, max_chunks)
        try:
            writers.append([blob.get_blob_writer('1.2.3.%d' % w, 3333), chunks, kind, 0, b''])
        except OSError:
            return 'VIOLATION: a second peer cannot open a writer'
    # any peer's response may declare a length again (any integer): the first declaration stands
    blob.set_length(vm.new_int('declared_again', -3, 3 * 2 ** 20))
    if blob.get_length() != n:
        return 'VIOLATION: the declared length of a blob changed after it was set'
    winner = None
    for step in range(steps):
        cur = writers[vm.pick('sched', n_writers)]
        writer, chunks, kind, sent, acc = cur
        if not chunks:
            continue
        data = chunks.pop(0)
        was_verified = blob.get_is_verified()
        fut = writer.finished
        was_done = fut.done()
        try:
            writer.write(data)
            raised = None
        except OSError:
            raised = 'OSError'
        except Exception as e:
            return 'VIOLATION: writer.write raised %s' % type(e).__name__
        LOOP[0].drain()
        sent = sent + len(data)
        acc = acc + data
        cur[3], cur[4] = sent, acc
        if n == 0:
            if blob.get_is_verified() or completed:
                return 'VIOLATION: a blob of unknown (zero) length became verified'
            continue
        complete_now = (not was_done) and sent == n and vm.same_bytes(acc, content)
        if was_done:
            # the transfer had already ended (refused, completed or shut down): a further write must change nothing
            if blob.get_is_verified() != was_verified:
                return 'VIOLATION: a write on a finished transfer changed the verified state'
            if raised is None and not writer.closed():
                return 'VIOLATION: a finished writer accepted more data'
        if blob.get_is_verified() and not was_verified:
            if not complete_now:
                return 'VIOLATION: the blob became verified by a writer that did not deliver exactly the committed content'
            if not vm.same_bytes(blob._verified_bytes.getvalue(), content):
                return 'VIOLATION: the stored bytes are not the committed content'
            if len(completed) != 1:
                return 'VIOLATION: the completed callback ran %d times' % len(completed)
            for other in writers:
                if not other[0].closed():
                    return 'VIOLATION: a writer was left open after the blob was verified'
            if blob.writers:
                return 'VIOLATION: writers are still registered after the blob was verified'
            winner = cur
        if completed and not blob.get_is_verified():
            return 'VIOLATION: the completed callback ran without verification'
        if complete_now and winner is None:
            return 'VIOLATION: a complete correct copy did not verify the blob'
        if not was_done and not complete_now:
            if sent > n:
                if fut.state != 'exception' or not isinstance(fut.value, InvalidDataError):
                    return 'VIOLATION: an over-long transfer was not refused with an invalid-data error'
                if not writer.closed():
                    return 'VIOLATION: the writer of an over-long transfer stayed open'
            elif sent == n:
                if fut.state != 'exception' or not isinstance(fut.value, InvalidBlobHashError):
                    return 'VIOLATION: a complete transfer with the wrong bytes was not refused with an invalid-hash error'
                if not writer.closed():
                    return 'VIOLATION: the writer of a wrong transfer stayed open'
            elif winner is None and (fut.done() or writer.closed()):
                return 'VIOLATION: an incomplete transfer was ended although nothing was wrong yet'
        if winner is None:
            # nobody has delivered the blob yet: a peer's failure must not end the transfers of the others
            for other in writers:
                if other is not cur and other[3] < n and (other[0].finished.done() or other[0].closed()):
                    return 'VIOLATION: a pending transfer was shut down by what another peer sent'
    return 'ok-verified' if winner is not None else 'ok-unverified'


# ------------------------------------------------------------------------------------------------ runner interface
class SymHash:
    """Ideal SHA-384 object: remembers its transcript."""

    def __init__(self):
        self.atoms = []


def sym_setup(vm, job):
    from lbry import utils
    from lbry.blob import writer as writer_mod
    from symvm import models
    from symvm.sv import SBytes, Run, atoms_of, zint
    from symvm import tz
    import lbry.blob.blob_file as bf
    state = {}

    def is_committed(atoms):
        c = state.get('content')
        if c is None:
            return False
        return vm.truth(vm.eq(models.mk_bytes(vm.norm_atoms(list(atoms))), c))

    def new_run_of_len(name, length):
        from symvm.sv import SInt
        vm.fresh += 1
        rid = f'{name}!{vm.fresh}'
        ln = length.e if isinstance(length, SInt) else length
        vm.inputs.append(('run', name, (rid, ln, None)))
        if isinstance(ln, int) and ln == 0:
            return b''
        return SBytes([Run(rid, 0, ln)])

    def blob_hash(content):
        state['content'] = content
        return 'ab' * 48

    def same_bytes(a, b):
        return vm.truth(vm.eq(a, b))
    vm.register_helper('new_run_of_len', new_run_of_len)
    vm.register_helper('blob_hash', blob_hash)
    vm.register_helper('same_bytes', same_bytes)
    vm.method_models[(SymHash, 'update')] = lambda vm_, o, a, k: o.atoms.extend(atoms_of(a[0]))
    vm.method_models[(SymHash, 'hexdigest')] = lambda vm_, o, a, k: ('ab' * 48) if is_committed(o.atoms) else ('cd' * 48)
    for target in (utils.get_lbry_hash_obj, writer_mod.get_lbry_hash_obj, bf.get_lbry_hash_obj):
        vm.models[id(target)] = lambda vm_, a, k: SymHash()
    vm.models[id(asyncio.Future)] = lambda vm_, a, k: vm_.call(ModelFuture, [], {})
    vm.models[id(asyncio.Event)] = lambda vm_, a, k: vm_.call(ModelEvent, [], {})


class _Native:
    def __init__(self, nvm):
        self.nvm = nvm

    def __enter__(self):
        import hashlib
        self.saved = (asyncio.Future, asyncio.Event)
        asyncio.Future, asyncio.Event = ModelFuture, ModelEvent
        nvm = self.nvm

        def new_run_of_len(name, length):
            rid, n, fill = nvm._next('run', name)
            from symvm.native import run_bytes
            return run_bytes(rid, n)
        nvm.new_run_of_len = new_run_of_len
        nvm.blob_hash = lambda content: hashlib.sha384(content or b'').hexdigest()
        nvm.same_bytes = lambda a, b: bytes(a) == bytes(b)

    def __exit__(self, *a):
        asyncio.Future, asyncio.Event = self.saved


def native_setup(nvm, job):
    return _Native(nvm)


def jobs(tier):
    out = []

    out.append(dict(name='name-commits-to-longer-content', family='write', fn='lying_length', args=(2 if tier == 'quick' else 3,), loop_bound=200,
                    max_depth=60, cost=200, bounds=dict(announced_length='1..2 MiB symbolic', real_content='1..1000 bytes longer, symbolic',
                                                        chunks='1..%d at symbolic offsets' % (2 if tier == 'quick' else 3)), must_reach=('ok',)))

    for n_losers in ((1, 2) if tier == 'quick' else (1, 2, 3)):
        out.append(dict(name=f'same-iteration-{n_losers}-other-writers', family='write', fn='same_iteration', args=(n_losers,), loop_bound=200,
                        max_depth=60, cost=100 * 6 ** n_losers,
                        bounds=dict(other_writers=n_losers, each='pending / ends with wrong bytes / ends over-long, before or after the winner',
                                    callbacks='all run after the last write of the iteration'), must_reach=('ok',)))

    def job(w, c, steps, kinds, cost):
        tag = ''.join(map(str, kinds)) if kinds else 'any'
        out.append(dict(name=f'writers{w}-chunks{c}-steps{steps}-kinds{tag}', family='write', fn='run', args=(w, c, steps, kinds),
                        loop_bound=200, max_depth=60, cost=cost, query_timeout_ms=20000,
                        bounds=dict(writers=w, chunks_per_writer=c, write_steps=steps,
                                    writer_data={'any': 'correct / unrelated / over-long / half-correct, symbolic'}.get(tag, tag),
                                    declared_length='any integer', chunk_offsets='symbolic')))
    job(1, 2, 2, None, 200)
    for kinds in (((0, 0), (0, 1), (0, 2)) if tier == 'quick' else ((0, 0), (0, 1), (0, 2), (0, 3), (1, 1))):
        job(2, 2, 3 if tier == 'quick' else 4, kinds, 5000)
    if tier == 'thorough':
        job(1, 3, 3, None, 50000)
        for k0 in range(4):
            for k1 in range(4):
                job(2, 2, 5, (k0, k1), 20000)
        for kinds in ((0, 0, 1), (0, 1, 2), (1, 0, 3)):
            job(3, 2, 5, kinds, 50000)
    return out


def finding_key(job, verdict, inputs, named):
    return f'{job.get("family")}|{verdict}'


def _no_hash_check(node):
    import ast
    for n in ast.walk(node):
        if isinstance(n, ast.Compare) and isinstance(n.ops[0], ast.NotEq) and isinstance(n.left, ast.Name) and n.left.id == 'blob_hash':
            n.ops[0] = ast.Is()
            n.comparators[0] = ast.Constant(None)
            return True
    return False


def _length_ge(node):
    import ast
    for n in ast.walk(node):
        if isinstance(n, ast.Compare) and isinstance(n.ops[0], ast.Gt) and isinstance(n.left, ast.Attribute) and n.left.attr == 'len_so_far':
            n.ops[0] = ast.GtE()
            return True
    return False


def _others_left_open(node):
    import ast
    for n in ast.walk(node):
        if isinstance(n, ast.While) and isinstance(n.test, ast.Attribute) and n.test.attr == 'writers':
            n.body = [n.body[0]]
            return True
    return False


CANARIES = [
    dict(name='hash-comparison-dropped', target='lbry.blob.writer:HashBlobWriter.write', mutate=_no_hash_check,
         job=dict(family='write', fn='run', args=(1, 2, 2, None), loop_bound=200, max_depth=60)),
    dict(name='exact-length-refused', target='lbry.blob.writer:HashBlobWriter.write', mutate=_length_ge,
         job=dict(family='write', fn='run', args=(1, 2, 2, None), loop_bound=200, max_depth=60)),
]
