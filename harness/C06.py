"""C06 - HD keys: Base58 / Base58Check / mnemonic codecs round-trip; BIP32 derivation structure and extended-key layout.

Interpreted from /repo: Base58.{encode,decode,encode_check,decode_check,char_value}, crypto.util.{bytes_to_int,int_to_bytes},
Mnemonic.{mnemonic_encode,mnemonic_decode}; bip32.{_KeyBase, PrivateKey.from_seed/child/public_key/extended_key/...,
PublicKey.child/extended_key/identifier/..., _from_extended_key, from_extended_key_string} (harness/bip32_c06.py).  The
checksum hash, HMAC-SHA512, hash160 and the elliptic curve are ideal."""
from lbry.crypto.base58 import Base58, Base58Error
from lbry.wallet.mnemonic import Mnemonic

from harness import bip32_c06, gap_c06
from harness.gap_c06 import address_gap      # noqa: F401  (job function)
from harness.bip32_c06 import derive, bad_index, parse_extended      # noqa: F401  (job functions)

LEVEL_TEXT = ('Bounded model checking of the real codecs: every payload of up to N symbolic bytes is Base58-encoded and decoded '
              'back (leading zero bytes <-> leading "1"s, every output character inside the alphabet), every string of up to M '
              'symbolic characters is decoded (rejection outside the alphabet, re-encoding gives the canonical string), '
              'Base58Check accepts a string iff its last four bytes are the checksum of the rest (ideal hash), and every '
              'number below 2048^W is mnemonic-encoded and decoded back (word table as injective table atoms).  BIP32 structure '
              'on an ideal curve (P(k) ideal and injective, P(k).add(t) = P(k+t)) with ideal HMAC-SHA512/hash160: from_seed and '
              'chains of child derivations with every 32-bit index (hardened or normal) give the private key, chain code, number, '
              'depth, public key, fingerprints and 78-byte extended keys an independent BIP32 reference gives; public-only derivation '
              'of a normal child equals the public key of the private child and is refused for hardened indices; extended keys '
              'parse back; _from_extended_key on every 77..79-byte string accepts exactly well-formed keys and reads every field '
              'from the right bytes.  Address gap: ensure_address_gap / _generate_keys on every usage pattern of 0-4 existing addresses '
              'and every gap 1-3: afterwards at least `gap` unused addresses follow the last used one, numbering continues without '
              'holes or repeats, the new addresses are returned and announced in order, a second call adds nothing.')
LEVEL_NOTE = ('Trusted: z3, the interpreter and its hex / divmod / constant-table models (paths replayed natively with the real '
              'hash and word list; the BIP32 jobs replay with real HMAC/hash160 and a stand-in curve).  Outside - not decidable in '
              'this family here: that coincurve/libsecp256k1 and HMAC-SHA512 compute what BIP32 prescribes (test vectors), '
              'the SQL behind the address table (the gap logic runs over an in-memory table), mnemonic_to_seed.')
ASSUMPTIONS = ['double_sha256 = ideal function (checksum equality is decided on its symbolic output bytes)',
               'payloads are not all-zero (int_to_bytes(0) yields one zero byte; no versioned key or address is all-zero)',
               'the word table has 2048 distinct whitespace-free entries (checked concretely on every run)',
               'BIP32 jobs: coincurve is replaced by an ideal curve that accepts every non-zero 32-byte secret; group addition is an '
               'ideal function (fresh non-zero result per new argument pair, shared by PrivateKey.add and PublicKey.add); HMAC '
               'outputs are fresh 256-bit values; events of probability 2^-127 (an HMAC half that is zero or collides) are assumed away; '
               'Base58Check is an opaque inverse pair in these jobs']
OUTSIDE = ['HMAC-SHA512 / secp256k1 values themselves (BIP32 test vectors)', 'the SQL behind the address table',
           'payloads longer than the bound', 'mnemonic_to_seed (PBKDF2)', 'derivation paths deeper than the bound']

ALPHABET = '123456789ABCDEFGHJKLMNPQRSTUVWXYZabcdefghijkmnopqrstuvwxyz'


def in_alphabet(vm, c):
    o = ord(c)
    return vm.any_of([vm.all_of([o >= 49, o <= 57]), vm.all_of([o >= 65, o <= 72]), vm.all_of([o >= 74, o <= 78]),
                      vm.all_of([o >= 80, o <= 90]), vm.all_of([o >= 97, o <= 107]), vm.all_of([o >= 109, o <= 122])])


def encode_decode(vm, n):
    b = vm.new_bytes('payload', n)
    vm.assume(vm.any_of([x != 0 for x in b]))               # not all-zero (see ASSUMPTIONS)
    txt = Base58.encode(b)
    if not isinstance(txt, str) or len(txt) == 0:
        return 'VIOLATION: Base58.encode did not return a non-empty string'
    for c in txt:
        if not in_alphabet(vm, c):
            return 'VIOLATION: Base58.encode produced a character outside the alphabet'
    zeros = 0
    while zeros < n and b[zeros] == 0:
        zeros += 1
    ones = 0
    while ones < len(txt) and txt[ones] == '1':
        ones += 1
    if ones != zeros:
        return 'VIOLATION: leading zero bytes are not encoded as the same number of leading 1s'
    try:
        back = Base58.decode(txt)
    except Exception as e:
        return 'VIOLATION: decoding an encoded payload raised %s' % type(e).__name__
    if back != b:
        return 'VIOLATION: Base58.decode(Base58.encode(payload)) differs from the payload'
    return 'ok'


def decode_any(vm, m):
    txt = vm.new_str('txt', m, 0, 127)
    valid = vm.all_of([in_alphabet(vm, c) for c in txt]) if m else False
    try:
        b = Base58.decode(txt)
    except Base58Error:
        if valid:
            return 'VIOLATION: a string inside the alphabet is rejected'
        return 'ok-rejected'
    except Exception as e:
        return 'VIOLATION: Base58.decode raised %s' % type(e).__name__
    if not valid:
        return 'VIOLATION: a string with a character outside the alphabet is decoded'
    if all(c == '1' for c in txt):
        return 'ok-all-zero'                                  # all-zero payload: outside the claim (see ASSUMPTIONS)
    if Base58.encode(b) != txt:
        return 'VIOLATION: re-encoding a decoded string gives another string'
    return 'ok-decoded'


def check_roundtrip(vm, n):
    from lbry.crypto.hash import double_sha256
    payload = vm.new_bytes('payload', n)
    vm.assume(vm.any_of([x != 0 for x in payload + double_sha256(payload)[:4]]))     # not all-zero (see ASSUMPTIONS)
    txt = Base58.encode_check(payload)
    try:
        back = Base58.decode_check(txt)
    except Exception as e:
        return 'VIOLATION: decode_check rejects what encode_check produced (%s)' % type(e).__name__
    if back != payload:
        return 'VIOLATION: decode_check(encode_check(payload)) differs from the payload'
    return 'ok'


def check_tamper(vm, n):
    """payload + 4 arbitrary check bytes: accepted iff they are the checksum."""
    from lbry.crypto.hash import double_sha256
    payload = vm.new_bytes('payload', n)
    vm.assume(payload[0] != 0)
    check = vm.new_bytes('check', 4)
    txt = Base58.encode(payload + check)
    good = check == double_sha256(payload)[:4]
    try:
        back = Base58.decode_check(txt)
    except Base58Error:
        if good:
            return 'VIOLATION: a correct checksum is rejected'
        return 'ok-rejected'
    except Exception as e:
        return 'VIOLATION: decode_check raised %s' % type(e).__name__
    if not good:
        return 'VIOLATION: a wrong checksum is accepted'
    if back != payload:
        return 'VIOLATION: decode_check returns another payload'
    return 'ok-accepted'


def check_any(vm, m):
    """decode_check on every string of m alphabet characters: accepted iff it decodes to at least four bytes whose last four are
    the checksum of the rest."""
    from lbry.crypto.hash import double_sha256
    txt = vm.new_str('txt', m, 49, 122)
    for c in txt:
        vm.assume(in_alphabet(vm, c))
    raw = Base58.decode(txt)
    try:
        back = Base58.decode_check(txt)
    except Base58Error:
        if len(raw) >= 4 and raw[-4:] == double_sha256(raw[:-4])[:4]:
            return 'VIOLATION: a correct checksum is rejected'
        return 'ok-rejected'
    except Exception as e:
        return 'VIOLATION: decode_check raised %s' % type(e).__name__
    if len(raw) < 4:
        return 'VIOLATION: a string too short to carry a checksum is accepted'
    if raw[-4:] != double_sha256(raw[:-4])[:4]:
        return 'VIOLATION: a wrong checksum is accepted'
    if back != raw[:-4]:
        return 'VIOLATION: decode_check returns another payload'
    return 'ok-accepted'


def mnemonic(vm, words):
    m = Mnemonic('en')
    n = len(m.words)
    i = vm.new_int('i', 1, n ** words - 1)
    seed = m.mnemonic_encode(i)
    try:
        back = m.mnemonic_decode(seed)
    except Exception as e:
        return 'VIOLATION: decoding an encoded mnemonic raised %s' % type(e).__name__
    if back != i:
        return 'VIOLATION: mnemonic_decode(mnemonic_encode(i)) differs from i'
    return 'ok'


def sym_setup(vm, job):
    if job.get('family') == 'bip32':
        return bip32_c06.sym_setup(vm, job)
    from symvm.ideal import IdealFn
    from lbry.crypto import hash as h
    import lbry.crypto.base58 as b58
    f = IdealFn(vm, 'dsha256', 32, injective=False, bv=False)
    vm.models[id(h.double_sha256)] = f.model()
    vm.models[id(b58.double_sha256)] = f.model()


class _Native:
    def __init__(self, nvm):
        self.nvm = nvm

    def __enter__(self):
        from symvm.ideal import NativeIdeal
        from lbry.crypto import hash as h
        import lbry.crypto.base58 as b58
        self.saved = (h.double_sha256, b58.double_sha256, b58.Base58.decode_check.__func__.__defaults__,
                      b58.Base58.encode_check.__func__.__defaults__)
        f = NativeIdeal(self.nvm, 'dsha256', h.double_sha256)
        h.double_sha256 = b58.double_sha256 = f
        b58.Base58.decode_check.__func__.__defaults__ = (f,)
        b58.Base58.encode_check.__func__.__defaults__ = (f,)

    def __exit__(self, *a):
        from lbry.crypto import hash as h
        import lbry.crypto.base58 as b58
        h.double_sha256, b58.double_sha256 = self.saved[0], self.saved[1]
        b58.Base58.decode_check.__func__.__defaults__ = self.saved[2]
        b58.Base58.encode_check.__func__.__defaults__ = self.saved[3]


def native_setup(nvm, job):
    if job.get('family') == 'bip32':
        return bip32_c06.Native(nvm)
    return _Native(nvm) if job.get('family') == 'check' else None


def jobs(tier):
    out = []
    for n in (range(1, 9) if tier == 'quick' else range(1, 14)):
        out.append(dict(name=f'encode-decode-{n}', family='base58', fn='encode_decode', args=(n,), loop_bound=200, max_depth=50,
                        cost=20 * 4 ** n, query_timeout_ms=30000, incremental_timeout_ms=300,
                        bounds=dict(payload_bytes=n, content='symbolic, not all zero'), must_reach=('ok',)))
    for m in (range(0, 3) if tier == 'quick' else range(0, 4)):      # 4 characters: two paths stay undecided in 360 s even with the cvc5 fallback
        out.append(dict(name=f'decode-any-{m}', family='base58', fn='decode_any', args=(m,), loop_bound=200, max_depth=50,
                        cost=10 * 5 ** m, query_timeout_ms=30000, incremental_timeout_ms=300, cvc5_fallback=(m >= 4),
                        bounds=dict(string_chars=m, alphabet='ASCII 0..127')))
    for n in ((1, 2, 4) if tier == 'quick' else (1, 2, 3, 4, 6, 8)):
        out.append(dict(name=f'check-roundtrip-{n}', family='check', fn='check_roundtrip', args=(n,), loop_bound=200, max_depth=50,
                        cost=2000, query_timeout_ms=30000, incremental_timeout_ms=300, bounds=dict(payload_bytes=n), must_reach=('ok',)))
        out.append(dict(name=f'check-tamper-{n}', family='check', fn='check_tamper', args=(n,), loop_bound=200, max_depth=50,
                        cost=2000, query_timeout_ms=30000, incremental_timeout_ms=300,
                        bounds=dict(payload_bytes=n, check_bytes='4 arbitrary bytes'), must_reach=('ok-rejected', 'ok-accepted')))
    for m in ((1, 2, 3) if tier == 'quick' else (1, 2, 3, 4)):
        out.append(dict(name=f'check-any-{m}', family='check', fn='check_any', args=(m,), loop_bound=200, max_depth=50, cost=30 * 4 ** m,
                        query_timeout_ms=30000, incremental_timeout_ms=300,
                        bounds=dict(string_chars=m, alphabet='Base58 characters'), must_reach=('ok-rejected',)))
    for w in ((1, 2, 4, 12) if tier == 'quick' else (1, 2, 4, 12, 24)):
        out.append(dict(name=f'mnemonic-{w}words', family='mnemonic', fn='mnemonic', args=(w,), loop_bound=200, max_depth=50, cost=50 * w,
                        bounds=dict(i=f'[1, 2048^{w})'), must_reach=('ok',)))
    out.extend(bip32_c06.jobs(tier))
    out.extend(gap_c06.jobs(tier))
    return out


def finding_key(job, verdict, inputs, named):
    return f'{job.get("family")}|{verdict}'


def _encode_skips_leading_zeros(node):
    """Canary: Base58.encode stops counting leading zero bytes one too late (emits a '1' for the first non-zero byte)."""
    import ast
    for n in ast.walk(node):
        if isinstance(n, ast.For) and isinstance(n.target, ast.Name) and n.target.id == 'byte':
            n.body = [n.body[1], n.body[0]]
            return True
    return False


def _checksum_three_bytes(node):
    """Canary: decode_check compares only three checksum bytes."""
    import ast
    hit = False
    for n in ast.walk(node):
        if isinstance(n, ast.Constant) and n.value == -4:
            n.value = -3
            hit = True
        if isinstance(n, ast.UnaryOp) and isinstance(n.op, ast.USub) and isinstance(n.operand, ast.Constant) and n.operand.value == 4:
            n.operand.value = 3
            hit = True
    return hit


def _mnemonic_pop_front(node):
    """Canary: mnemonic_decode consumes the words in the wrong order."""
    import ast
    for n in ast.walk(node):
        if isinstance(n, ast.Call) and isinstance(n.func, ast.Attribute) and n.func.attr == 'pop' and not n.args:
            n.args = [ast.Constant(0)]
            return True
    return False


def _hardened_off_by_one(node):
    import ast
    for n in ast.walk(node):
        if isinstance(n, ast.Compare) and isinstance(n.ops[0], ast.GtE) and isinstance(n.comparators[0], ast.Attribute) \
                and n.comparators[0].attr == 'HARDENED':
            n.ops[0] = ast.Gt()
            return True
    return False


def _child_number_little_endian(node):
    import ast
    for n in ast.walk(node):
        if isinstance(n, ast.Constant) and n.value == 'big':
            n.value = 'little'
            return True
    return False


def _chain_code_offset(node):
    import ast
    for n in ast.walk(node):
        if isinstance(n, ast.Slice) and isinstance(n.lower, ast.Constant) and n.lower.value == 9:
            n.lower = ast.Constant(8)
            n.upper = ast.Constant(12)
            return True
    return False


def _gap_no_break(node):
    """Canary: ensure_address_gap counts every unused address among the last `gap`, not only those after the last used one."""
    import ast
    for n in ast.walk(node):
        if isinstance(n, ast.If) and n.orelse and isinstance(n.orelse[0], ast.Break):
            n.orelse = [ast.Pass()]
            return True
    return False


CANARIES = [
    dict(name='encode-leading-zero-count', target='lbry.crypto.base58:Base58.encode', mutate=_encode_skips_leading_zeros,
         job=dict(family='base58', fn='encode_decode', args=(2,), loop_bound=200, max_depth=50, query_timeout_ms=30000,
                  incremental_timeout_ms=300)),
    dict(name='checksum-three-bytes', target='lbry.crypto.base58:Base58.decode_check', mutate=_checksum_three_bytes,
         job=dict(family='check', fn='check_tamper', args=(2,), loop_bound=200, max_depth=50, query_timeout_ms=30000,
                  incremental_timeout_ms=300)),
    dict(name='mnemonic-word-order', target='lbry.wallet.mnemonic:Mnemonic.mnemonic_decode', mutate=_mnemonic_pop_front,
         job=dict(family='mnemonic', fn='mnemonic', args=(2,), loop_bound=200, max_depth=50)),
    dict(name='bip32-hardened-threshold', target='lbry.wallet.bip32:PrivateKey.child', mutate=_hardened_off_by_one,
         job=dict(family='bip32', fn='derive', args=(16, 1), loop_bound=200, max_depth=60)),
    dict(name='bip32-child-number-endianness', target='lbry.wallet.bip32:_KeyBase._extended_key', mutate=_child_number_little_endian,
         job=dict(family='bip32', fn='derive', args=(16, 1), loop_bound=200, max_depth=60)),
    dict(name='gap-counts-from-the-wrong-end', target='lbry.wallet.account:HierarchicalDeterministic.ensure_address_gap', mutate=_gap_no_break,
         job=dict(family='gap', fn='address_gap', args=(4, 3), loop_bound=200, max_depth=60)),
    dict(name='bip32-parser-offsets', target='lbry.wallet.bip32:_from_extended_key', mutate=_chain_code_offset,
         job=dict(family='bip32', fn='parse_extended', args=(), loop_bound=200, max_depth=60)),
]
