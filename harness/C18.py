"""C18 - blob bookkeeping matches the disk after any restart (the Python side; the SQL statements are modelled).

Interpreted from /repo: BlobManager.{__init__, setup, ensure_completed_blobs_status, is_blob_verified, get_blob, _get_blob,
blob_completed, delete_blob, delete_blobs}, BlobFile.__init__ / file_exists / delete, SQLiteStorage.{sync_missing_blobs,
add_blobs, delete_blobs_from_db} including their inner transaction functions.  The five SQL statements those functions
issue are answered by a table model (hash -> status); the blob directory is a model file system."""
import os

from lbry.blob.blob_manager import BlobManager
from lbry.extras.daemon.storage import SQLiteStorage

from harness.C01 import ModelLoop, LOOP, VM as C01_VM
from harness.C07 import Ready

LEVEL_TEXT = ('Bounded model checking of the real start-up reconciliation, completion and deletion code over a model blob directory and a '
              'model `blob` table: from EVERY combination of (file present or not) x (row absent / pending / finished) for 2-3 blobs - i.e. '
              'whatever earlier downloads, deletions and crashes left behind - optionally followed by one or two session operations '
              '(a blob completes with the process dying before or after the database write, deletion through the API, a file removed or '
              'added behind the daemon\'s back), a restart reports as completed only blobs whose file exists, records every present file as '
              'finished, downgrades finished rows without a file to pending, and a further restart reports exactly the files present.')
LEVEL_NOTE = ('Trusted: z3 (it only enumerates the choices here), the interpreter (every path replayed natively), and the table model: the five '
              'SQL statements of sync_missing_blobs / add_blobs / delete_blobs_from_db are matched textually and given their obvious meaning; a '
              'changed statement is reported as unsupported (inconclusive), never as a pass.  The `real-sqlite` jobs run the same scenarios with the real SQLiteStorage on the real sqlite3 library (in-memory, real schema) instead of the table model.  NOT covered: the other columns '
              'of the table, stream/file tables, concurrent sessions.')
ASSUMPTIONS = [
    'table model: "select blob_hash from blob where status=\'finished\'", "update blob set status=\'pending\' where blob_hash=?", '
    '"insert or ignore into blob values (...)", "update blob set status=\'finished\' where blob.blob_hash=?", "delete from blob where blob_hash=?;" '
    'behave as on a table keyed by blob_hash; db.run(fn) calls fn(transaction) atomically',
    'model blob directory: os.scandir / os.path.isfile / os.path.isdir / os.stat / os.remove over a dictionary name -> size',
    'a process death loses the in-memory manager and nothing else; database writes are atomic',
]
OUTSIDE = ['the table-model jobs do not run sqlite (the real-sqlite jobs do, on the real schema)', 'stream and file tables', 'files with invalid names', 'torn blob files (a present file counts as complete: C01)']

HASHES = ['aa' * 48, 'bb' * 48, 'cc' * 48]
BLOB_DIR = '/nonexistent-symvm-model-fs/blobfiles'
ENV = [None]


class Loop(ModelLoop):
    def run_in_executor(self, executor, fn, *args):
        return Ready(fn(*args))

    def time(self):
        return 1000.0


class Cursor:
    def __init__(self, rows, rowcount=-1):
        self.rows = rows
        self.rowcount = rowcount            # sqlite3: rows modified by INSERT/UPDATE/DELETE (summed by executemany), -1 otherwise

    def fetchall(self):
        return self.rows

    def fetchone(self):
        return self.rows[0] if self.rows else None


class ModelTransaction:
    def __init__(self, table):
        self.table = table

    def apply(self, sql, params):
        """(rows returned, rows modified)"""
        t = self.table
        if sql == "select blob_hash from blob where status='finished'":
            return [(h,) for h in sorted(t) if t[h] == 'finished'], -1
        if sql == "update blob set status='pending' where blob_hash=?":
            if params[0] in t:
                t[params[0]] = 'pending'
                return [], 1
            return [], 0
        if sql == "insert or ignore into blob values (?, ?, ?, ?, ?, ?, ?, ?, ?)":
            if params[0] not in t:
                t[params[0]] = params[4]
                return [], 1
            return [], 0
        if sql == "update blob set status='finished' where blob.blob_hash=?":
            if params[0] in t:
                t[params[0]] = 'finished'
                return [], 1
            return [], 0
        if sql == "delete from blob where blob_hash=?;":
            if params[0] in t:
                t.pop(params[0])
                return [], 1
            return [], 0
        from symvm.sv import Unsupported
        raise Unsupported('table model: unknown SQL statement %r' % (sql,))

    def execute(self, sql, params=()):
        rows, count = self.apply(sql, tuple(params))
        return Cursor(rows, count)

    def executemany(self, sql, seq):
        total = 0
        for params in seq:
            count = self.apply(sql, tuple(params))[1]
            if count > 0:
                total += count
        return Cursor([], total)


class ModelDB:
    def __init__(self, table):
        self.table = table

    async def run(self, fn, *args):
        return fn(ModelTransaction(self.table), *args)

    async def run_with_foreign_keys_disabled(self, fn, *args):
        return fn(ModelTransaction(self.table), *args)


class Storage:
    """The real storage methods over the table model."""
    sync_missing_blobs = SQLiteStorage.sync_missing_blobs
    add_blobs = SQLiteStorage.add_blobs
    delete_blobs_from_db = SQLiteStorage.delete_blobs_from_db

    def __init__(self, table):
        self.db = ModelDB(table)


def make_storage(table):
    """`table` is the dictionary of the table model, or a sqlstore.BlobTable view of a real SQLiteStorage on the real sqlite."""
    return table.storage if hasattr(table, 'storage') else Storage(table)


class Config:
    blob_lru_cache_size = 0
    save_blobs = True
    track_bandwidth = False


class ConfigNoSave(Config):
    save_blobs = False            # streaming-only node: new blobs are kept in memory, blobs already on disk are still served


CONFIG = [Config]


class DirEntry:
    def __init__(self, name):
        self.name = name


class StatResult:
    def __init__(self, size):
        self.st_size = size


def fs_models(files):
    def m_scandir(path):
        return [DirEntry(name) for name in sorted(files)] if path == BLOB_DIR else []

    def m_isfile(path):
        return os.path.dirname(path) == BLOB_DIR and os.path.basename(path) in files

    def m_isdir(path):
        return path == BLOB_DIR

    def m_stat(path):
        if not m_isfile(path):
            raise FileNotFoundError(path)
        return StatResult(files[os.path.basename(path)])

    def m_remove(path):
        if not m_isfile(path):
            raise FileNotFoundError(path)
        del files[os.path.basename(path)]
    return [(os, 'scandir', m_scandir), (os.path, 'isfile', m_isfile), (os.path, 'isdir', m_isdir), (os, 'stat', m_stat),
            (os, 'remove', m_remove)]


def start(table):
    m = BlobManager(LOOP[0], BLOB_DIR, make_storage(table), CONFIG[0]())
    C01_VM[0].await_(m.setup())
    return m


def check_restart(files, table, before):
    """Invariants of a start-up (and of the one after it)."""
    m = start(table)
    for h in m.completed_blob_hashes:
        if h not in files:
            return 'VIOLATION: a blob is reported as completed although its file is not in the blob directory'
    for h in files:
        if table.get(h) != 'finished':
            return 'VIOLATION: a blob file present at start-up is not recorded as finished'
    for h in HASHES:
        if table.get(h) == 'finished' and h not in files:
            return 'VIOLATION: a blob recorded as finished whose file is gone was not downgraded to pending'
        if before.get(h) == 'finished' and h not in files and table.get(h) != 'pending':
            return 'VIOLATION: a finished blob whose file disappeared is not pending after the restart'
        if before.get(h) is not None and h not in table:
            return 'VIOLATION: a start-up removed a row from the blob table'
    again = start(table)
    if set(again.completed_blob_hashes) != set(files):
        return 'VIOLATION: a further restart with nothing changed does not report exactly the files present'
    return None


def restart(vm, n, n_ops, real_sql=False):
    C01_VM[0] = vm
    LOOP[0] = Loop()
    files, table = ENV[0].state()
    CONFIG[0] = Config
    if real_sql and not n_ops:
        CONFIG[0] = (Config, ConfigNoSave)[vm.pick('save_blobs_disabled_at_restart', 2)]
    if real_sql:
        # the real SQLiteStorage on the real sqlite3 library (in-memory, real schema): no statement is modelled
        from harness.sqlstore import new_storage, BlobTable
        table = BlobTable(new_storage(LOOP[0]))
    for h in HASHES[:n]:
        if vm.new_bool('file_present'):
            files[h] = 1000
        status = vm.pick('row', 3)
        if status:
            table[h] = ('pending', 'finished')[status - 1]
    if n_ops:
        m = start(table)
        for step in range(n_ops):
            op = vm.pick('operation', 5)
            h = HASHES[vm.pick('which', n)]
            if op == 0:                                     # a download / publish completes: file written, then recorded
                if h in files:
                    continue
                files[h] = 2000
                blob = m.get_blob(h, 2000)
                if vm.new_bool('dies_before_the_database_write'):
                    break
                try:
                    m.blob_completed(blob)
                except Exception as e:
                    return 'VIOLATION: blob_completed raised %s' % type(e).__name__
                if table.get(h) != 'finished' or h not in m.completed_blob_hashes:
                    return 'VIOLATION: a completed blob is not recorded as finished and reported as completed'
            elif op == 1:                                   # deletion through the API
                try:
                    vm.await_(m.delete_blobs([h]))
                except Exception as e:
                    return 'VIOLATION: delete_blobs raised %s' % type(e).__name__
                if h in files or h in table:
                    return 'VIOLATION: a deleted blob is still on disk or in the table'
                # (the running manager may go on listing a deleted blob it had not loaded as completed until the next start:
                # observed, see DESIGN.md; the property speaks about what a start-up reports)
            elif op == 2:                                   # deletion, the process dies before the database write
                m.delete_blob(h)
                break
            elif op == 3:                                   # the file is removed behind the daemon's back
                files.pop(h, None)
            else:                                           # a file appears behind the daemon's back
                files.setdefault(h, 3000)
    before = table.snapshot() if real_sql else dict(table)
    bad = check_restart(files, table, before)
    return bad or 'ok'


def many_files(vm, n_files):
    """A start-up that finds n_files blob files the database knows nothing about (a restored blob directory, a recreated database):
    every one of them is recorded as finished - the reconciliation works in batches of 500."""
    C01_VM[0] = vm
    LOOP[0] = Loop()
    CONFIG[0] = Config
    files, table = ENV[0].state()
    from harness.sqlstore import new_storage, BlobTable
    table = BlobTable(new_storage(LOOP[0]))
    known = vm.pick('files_already_recorded', 3)
    for i in range(n_files):
        h = '%096x' % (i + 1)
        files[h] = 1000 + i
        if i < known:
            table[h] = 'finished'
    start(table)
    snap = table.snapshot()
    for h in files:
        if snap.get(h) != 'finished':
            return 'VIOLATION: a blob file present at start-up is not recorded as finished'
    again = start(table)
    if set(again.completed_blob_hashes) != set(files):
        return 'VIOLATION: a further restart with nothing changed does not report exactly the files present'
    return 'ok'


# ------------------------------------------------------------------------------------------------ runner interface
class Env:
    def __init__(self):
        self.files, self.table = {}, {}

    def state(self):
        self.files.clear()
        self.table.clear()
        return self.files, self.table


def sym_setup(vm, job):
    env = Env()
    ENV[0] = env
    for mod, name, fn in fs_models(env.files):
        vm.models[id(getattr(mod, name))] = (lambda f: (lambda vm_, a, k: vm_.call(f, list(a), k)))(fn)
        vm._helpers.append(fn)


class _Native:
    def __enter__(self):
        self.env_saved = ENV[0]
        env = Env()
        ENV[0] = env
        self.saved = []
        for mod, name, fn in fs_models(env.files):
            self.saved.append((mod, name, getattr(mod, name)))
            setattr(mod, name, fn)
        self.loop_saved = (LOOP[0], C01_VM[0])

    def __exit__(self, *a):
        for mod, name, old in reversed(self.saved):
            setattr(mod, name, old)
        ENV[0] = self.env_saved
        LOOP[0], C01_VM[0] = self.loop_saved


def native_setup(nvm, job):
    return _Native()


def jobs(tier):
    out = []
    for n, ops in (((2, 0), (2, 1), (3, 0)) if tier == 'quick' else ((2, 0), (3, 0), (2, 1), (2, 2), (3, 1))):
        out.append(dict(name=f'restart-{n}blobs-{ops}ops', family='restart', fn='restart', args=(n, ops), loop_bound=400, max_depth=60,
                        cost=6 ** n * 12 ** ops,
                        bounds=dict(blobs=n, start_state='every combination of file present x row absent/pending/finished',
                                    session_operations=ops, operations='complete (crash before/after the db write) / delete / delete + crash / '
                                    'file removed / file added'), must_reach=('ok',)))
    for n, ops in (((2, 1), (3, 0)) if tier == 'quick' else ((2, 0), (3, 0), (2, 1), (2, 2), (3, 1))):
        out.append(dict(name=f'restart-real-sqlite-{n}blobs-{ops}ops', family='restart', fn='restart', args=(n, ops, True), loop_bound=400, max_depth=60,
                        cost=6 ** n * 12 ** ops,
                        bounds=dict(blobs=n, start_state='every combination of file present x row absent/pending/finished',
                                    session_operations=ops, operations='complete (crash before/after the db write) / delete / delete + crash / '
                                    'file removed / file added', sql='executed by the real sqlite3 library on the real schema'), must_reach=('ok',)))
    for n_files in ((501, 1003) if tier == 'quick' else (499, 500, 501, 502, 1001, 1002, 1003, 1504)):
        out.append(dict(name=f'restart-{n_files}-unrecorded-files', family='restart', fn='many_files', args=(n_files,), loop_bound=4000, max_depth=80,
                        cost=n_files, bounds=dict(files=n_files, recorded_before='0, 1 or 2 of them', sql='real sqlite3'), must_reach=('ok',)))
    return out


def finding_key(job, verdict, inputs, named):
    return f'{job.get("family")}|{verdict}'


def _completed_not_intersected(node):
    """Canary: sync_missing_blobs returns every finished row instead of the finished rows that have a file."""
    import ast
    for n in ast.walk(node):
        if isinstance(n, ast.Return) and isinstance(n.value, ast.Call) and isinstance(n.value.func, ast.Attribute) \
                and n.value.func.attr == 'intersection':
            n.value = ast.Name(id='finished_blobs_set', ctx=ast.Load())
            return True
    return False


def _seen_files_not_recorded(node):
    """Canary: start-up no longer records files that are present but not finished."""
    import ast
    for i, st in enumerate(node.body):
        if isinstance(st, ast.Expr) and 'ensure_completed_blobs_status' in ast.unparse(st):
            node.body[i] = ast.Pass()
            return True
    return False


def _delete_keeps_file(node):
    """Canary: delete_blob no longer removes the file of a blob that is not loaded."""
    import ast
    for n in ast.walk(node):
        if isinstance(n, ast.Expr) and 'os.remove' in ast.unparse(n):
            n.value = ast.Constant(None)
            return True
    return False


CANARIES = [
    dict(name='completed-without-file', target='lbry.extras.daemon.storage:SQLiteStorage.sync_missing_blobs', mutate=_completed_not_intersected,
         job=dict(family='restart', fn='restart', args=(2, 0), loop_bound=400, max_depth=60)),
    dict(name='present-files-not-recorded', target='lbry.blob.blob_manager:BlobManager.setup', mutate=_seen_files_not_recorded,
         job=dict(family='restart', fn='restart', args=(2, 0), loop_bound=400, max_depth=60)),
    dict(name='delete-keeps-file', target='lbry.blob.blob_manager:BlobManager.delete_blob', mutate=_delete_keeps_file,
         job=dict(family='restart', fn='restart', args=(2, 1), loop_bound=400, max_depth=60)),
]
