"""C02 (b) - publish a file as a stream and decrypt it again (harness/C02.py dispatches family 'publish' here).

Interpreted from /repo: StreamDescriptor.{create_stream, __init__, make_sd_blob, as_json, old_sort_json, calculate_sd_hash,
calculate_old_sort_sd_hash, get_stream_hash, calculate_stream_hash, get_blob_hashsum}, file_reader, sanitize_file_name, format_sd_info,
BlobInfo, AbstractBlob.{create_from_unencrypted, __init__, get_blob_writer, writer_finished_callback, save_verified_blob, ...},
BlobBuffer._write_blob, HashBlobWriter, encrypt_blob_bytes, decrypt_blob_bytes.  AES-CBC is an ideal cipher and SHA-384 an ideal
(injective, naming) hash in the symbolic run; the native replay of every path uses the real `cryptography` AES/PKCS7 and real SHA-384."""
import hashlib
import json
from binascii import hexlify, unhexlify

import lbry.blob.blob_file as BF
import lbry.stream.descriptor as D
from lbry.blob import MAX_BLOB_SIZE
from lbry.blob.blob_file import decrypt_blob_bytes
from lbry.stream.descriptor import StreamDescriptor, sanitize_file_name

from harness.C01 import ModelLoop, ModelEvent, LOOP, VM as C01_VM

L = MAX_BLOB_SIZE - 1
SIZES = [1, 15, 16, 17, 32, L - 16, L - 15, L - 1, L, L + 1, L + 15, L + 16, 2 * L, 2 * L + 1]
KEY = bytes(range(0x20, 0x30))
IVS = [bytes([0x41 + i]) * 16 for i in range(6)]
ENVP = [None]          # the environment object (symbolic or native) of the running job


class Hang(Exception):
    """An await on an event that nothing will set."""


class Event(ModelEvent):
    def wait(self):
        return Waiter(self)


class Waiter:
    def __init__(self, event):
        self.event = event

    def outcome(self):
        LOOP[0].drain()                    # the callbacks queued by the write run before the waiter is resumed
        if not self.event.flag:
            raise Hang()
        return True

    def __vm_await__(self, vm):
        return self.outcome()

    def __await__(self):
        return self

    def __iter__(self):
        return self

    def __next__(self):
        raise StopIteration(self.outcome())


class MemBlob(BF.BlobBuffer):
    """Stands in for BlobFile inside lbry.stream.descriptor: an in-memory blob that also records what was stored under which name."""

    def _write_blob(self, blob_bytes):
        ENVP[0].store[self.blob_hash] = blob_bytes
        return BF.BlobBuffer._write_blob(self, blob_bytes)


# ------------------------------------------------------------------------------------------------ ideal cipher (symbolic run only)
class IdealCipher:
    def __init__(self, key, iv):
        self.key, self.iv = key, iv

    def encryptor(self):
        return Enc(self.key, self.iv)

    def decryptor(self):
        return Dec(self.key, self.iv)


class Enc:
    def __init__(self, key, iv):
        self.key, self.iv, self.buf = key, iv, b''

    def update(self, data):
        self.buf = self.buf + data
        return b''

    def finalize(self):
        return ENVP[0].encrypt(self.key, self.iv, self.buf)


class Dec:
    def __init__(self, key, iv):
        self.key, self.iv, self.buf = key, iv, b''

    def update(self, data):
        self.buf = self.buf + data
        return b''

    def finalize(self):
        return ENVP[0].decrypt(self.key, self.iv, self.buf)


class Padding:
    def __init__(self, block_bits):
        self.block = block_bits // 8

    def padder(self):
        return Pad(self.block)

    def unpadder(self):
        return Unpad(self.block)


class Pad:
    def __init__(self, block):
        self.block, self.n = block, 0

    def update(self, data):
        self.n = self.n + len(data)
        return data

    def finalize(self):
        p = self.block - self.n % self.block
        return bytes([p]) * p


class Unpad:
    def __init__(self, block):
        self.block, self.buf = block, b''

    def update(self, data):
        self.buf = self.buf + data
        return b''

    def finalize(self):
        return ENVP[0].unpad(self.block, self.buf)


# ------------------------------------------------------------------------------------------------ the job
def ref_stream_hash(name_hex, key_hex, file_hex, blobs):
    """Reference commitment: H(name || key || file || H(concat_i H([hash_i] || str(num_i) || iv_i || str(len_i))))."""
    E = ENVP[0]
    inner = b''
    for b in blobs:
        part = b''
        if b.length != 0:
            part = part + b.blob_hash.encode()
        part = part + str(b.blob_num).encode() + b.iv.encode() + str(b.length).encode()
        inner = inner + unhexlify(E.name_of(part))
    return E.name_of(name_hex.encode() + key_hex.encode() + file_hex.encode() + unhexlify(E.name_of(inner)))


def publish(vm):
    """create_stream on a file of each boundary size (content opaque), then decrypt the blobs in descriptor order with the descriptor's key
    and IVs: the file comes back; blob sizes, names, numbering, terminator, stream hash and sd hash are commitments over exactly the
    descriptor's content."""
    E = ENVP[0]
    size = SIZES[vm.pick('file_size', len(SIZES))]
    old_sort = bool(vm.pick('old_field_order', 2))
    content = E.new_file(vm, size)
    loop = ModelLoop()
    LOOP[0] = loop
    C01_VM[0] = vm
    completed = []
    try:
        d = vm.await_(StreamDescriptor.create_stream(loop, '/blobs', '/virtual/file', KEY, iter(IVS), old_sort,
                                                      lambda blob: completed.append(blob.blob_hash)))
    except Hang:
        return 'VIOLATION: create_stream waits for a blob that is never verified'
    except Exception as e:
        return 'VIOLATION: create_stream raised %s' % type(e).__name__
    n = (size + L - 1) // L
    blobs = d.blobs
    if len(blobs) != n + 1:
        return 'VIOLATION: the descriptor does not list one blob per chunk plus a terminator'
    if d.key != hexlify(KEY).decode():
        return 'VIOLATION: the descriptor does not carry the key the blobs were encrypted with'
    ivs = []
    rebuilt = b''
    for i, b in enumerate(blobs):
        if b.blob_num != i:
            return 'VIOLATION: blobs are not numbered consecutively from 0'
        if b.iv in ivs:
            return 'VIOLATION: an IV is used twice in one stream'
        ivs.append(b.iv)
        if i == n:
            if b.length != 0 or b.blob_hash is not None:
                return 'VIOLATION: the last entry is not a zero-length terminator without hash'
            continue
        if not b.blob_hash or b.blob_hash not in E.store:
            return 'VIOLATION: a listed blob was not stored under its name'
        data = E.store[b.blob_hash]
        if len(data) != b.length or b.length > MAX_BLOB_SIZE or b.length <= 0:
            return 'VIOLATION: a blob length is wrong or exceeds 2 MiB'
        if E.name_of(data) != b.blob_hash:
            return 'VIOLATION: a blob is not named by the hash of its ciphertext'
        try:
            plain = decrypt_blob_bytes(data, b.length, unhexlify(d.key), unhexlify(b.iv))
        except Exception as e:
            return 'VIOLATION: decrypting a blob with the descriptor key and IV raised %s' % type(e).__name__
        rebuilt = rebuilt + plain
    if len(rebuilt) != size or not E.same(vm, rebuilt, content):
        return 'VIOLATION: decrypting the blobs in descriptor order does not reproduce the file'
    if d.stream_name != 'file' or d.suggested_file_name != sanitize_file_name('file'):
        return 'VIOLATION: the descriptor does not carry the file name'
    name_hex = hexlify(d.stream_name.encode()).decode()
    file_hex = hexlify(d.suggested_file_name.encode()).decode()
    if d.stream_hash != ref_stream_hash(name_hex, d.key, file_hex, blobs):
        return 'VIOLATION: the stream hash is not the commitment over the descriptor content'
    if not d.sd_hash or d.sd_hash not in E.store:
        return 'VIOLATION: the descriptor blob was not stored under the sd hash'
    sd = E.store[d.sd_hash]
    if E.name_of(sd) != d.sd_hash:
        return 'VIOLATION: the sd hash is not the hash of the descriptor blob'
    try:
        decoded = json.loads(bytes(sd).decode())
    except Exception as e:
        return 'VIOLATION: the descriptor blob is not JSON (%s)' % type(e).__name__
    want = {'stream_type': 'lbryfile', 'stream_name': name_hex, 'key': d.key, 'suggested_file_name': file_hex, 'stream_hash': d.stream_hash,
            'blobs': [dict(length=b.length, blob_num=b.blob_num, iv=b.iv, **({'blob_hash': b.blob_hash} if b.blob_hash else {})) for b in blobs]}
    if decoded != want:
        return 'VIOLATION: the stored descriptor blob does not say what the descriptor object says'
    for b in blobs[:-1]:
        if b.blob_hash not in completed:
            return 'VIOLATION: a stored blob was not reported as completed'
    if d.sd_hash not in completed:
        return 'VIOLATION: the descriptor blob was not reported as completed'
    return 'ok-%d-blobs' % n


# ------------------------------------------------------------------------------------------------ environments
class SymEnvP:
    __symvm_native__ = True          # harness plumbing: runs natively on the interpreter's values

    def __init__(self, vm):
        self.vm = vm
        self.store = {}
        self.names = {}
        self.cipher = {}
        self.content = None
        self.size = None

    def new_file(self, vm, size):
        from symvm.sv import SBytes, Run
        vm.fresh += 1
        rid = 'file!%d' % vm.fresh
        vm.inputs.append(('run', 'file', (rid, size, None)))
        self.size = size
        self.content = SBytes([Run(rid, 0, size)])
        self.store.clear()
        self.names.clear()
        self.cipher.clear()
        return self.content

    def key_of(self, data):
        from symvm.sv import Run, atoms_of
        out = []
        for x in self.vm.norm_atoms(list(atoms_of(data))):
            if isinstance(x, Run):
                out.append(('run', x.rid, str(x.off), str(x.length)))
            elif isinstance(x, int):
                out.append(x)
            else:
                from symvm.sv import Unsupported
                raise Unsupported('publish job: symbolic byte in hashed or encrypted data')
        return tuple(out)

    def name_of(self, data):
        """Ideal SHA-384 with concrete names: structurally equal inputs get the same name, different inputs different names."""
        k = self.key_of(data)
        if all(isinstance(x, int) for x in k):
            return hashlib.sha384(bytes(k)).hexdigest()
        if k not in self.names:
            self.names[k] = hashlib.sha384(repr(k).encode()).hexdigest()
        return self.names[k]

    def same(self, vm, a, b):
        return vm.truth(vm.eq(a, b))

    def encrypt(self, key, iv, padded):
        from symvm.sv import SBytes, Run
        n = len(self.key_of(padded)) and self._len(padded)
        if n % 16:
            raise ValueError('The length of the provided data is not a multiple of the block length.')
        self.vm.fresh += 1
        ct = SBytes([Run('ciphertext!%d' % self.vm.fresh, 0, n)]) if n else b''
        self.cipher[(bytes(key), bytes(iv), self.key_of(ct))] = padded
        return ct

    def _len(self, data):
        n = self.vm.call(len, [data], {})
        if not isinstance(n, int):
            from symvm.sv import Unsupported
            raise Unsupported('publish job: data of symbolic length')
        return n

    def decrypt(self, key, iv, data):
        from symvm.sv import SBytes, Run
        n = self._len(data)
        if n % 16:
            raise ValueError('The length of the provided data is not a multiple of the block length.')
        plain = self.cipher.get((bytes(key), bytes(iv), self.key_of(data)))
        if plain is not None:
            return plain
        self.vm.fresh += 1           # another key, IV or ciphertext: unrelated bytes
        return SBytes([Run('garbage!%d' % self.vm.fresh, 0, n)]) if n else b''

    def unpad(self, block, data):
        from symvm.sv import atoms_of
        atoms = self.vm.norm_atoms(list(atoms_of(data)))
        p = atoms[-1] if atoms else None
        if not isinstance(p, int) or not 1 <= p <= block or len(atoms) < p or any(x != p for x in atoms[-p:]):
            raise ValueError('Invalid padding bytes.')
        from symvm.sv import mk_bytes
        return mk_bytes(atoms[:-p])


class NativeEnvP:
    def __init__(self, nvm):
        self.nvm = nvm
        self.store = {}
        self.content = None

    def new_file(self, vm, size):
        from symvm.native import run_bytes
        rid, n, fill = vm._next('run', 'file')
        self.content = run_bytes(rid, n)
        self.store.clear()
        return self.content

    def name_of(self, data):
        return hashlib.sha384(bytes(data)).hexdigest()

    def same(self, vm, a, b):
        return bytes(a) == bytes(b)


class SymHashObj:
    __symvm_native__ = True

    def __init__(self):
        self.data = b''

    def update(self, data):
        from symvm.sv import mk_bytes, atoms_of
        self.data = mk_bytes(list(atoms_of(self.data)) + list(atoms_of(data)))

    def hexdigest(self):
        return ENVP[0].name_of(self.data)

    def digest(self):
        return unhexlify(ENVP[0].name_of(self.data))


def sym_setup(vm, job):
    import asyncio
    import os
    from lbry import utils
    from lbry.blob import writer as writer_mod
    from symvm import models
    from harness.C01 import ModelFuture
    env = SymEnvP(vm)
    ENVP[0] = env

    class StatResult:
        def __init__(self, size):
            self.st_size = size

    class Loop:
        __symvm_native__ = True

        def run_in_executor(self, ex, fn, *a):
            from symvm.vm import Done
            return Done(vm.call(fn, list(a), {}))
    D.BlobFile = MemBlob
    vm.models[id(os.stat)] = lambda vm_, a, k: StatResult(env.size)
    vm.models[id(asyncio.get_event_loop)] = lambda vm_, a, k: Loop()
    vm.models[id(D.read_bytes)] = lambda vm_, a, k: models.sbytes_getitem(vm_, env.content, slice(a[1], a[1] + a[2], None))
    vm.models[id(asyncio.Future)] = lambda vm_, a, k: vm_.call(ModelFuture, [], {})
    vm.models[id(asyncio.Event)] = lambda vm_, a, k: vm_.call(Event, [], {})
    for target in (utils.get_lbry_hash_obj, writer_mod.get_lbry_hash_obj, BF.get_lbry_hash_obj, D.get_lbry_hash_obj):
        vm.models[id(target)] = lambda vm_, a, k: SymHashObj()
    vm.models[id(BF.Cipher)] = lambda vm_, a, k: vm_.call(IdealCipher, [a[0].key, a[1].initialization_vector], {})
    vm.models[id(BF.PKCS7)] = lambda vm_, a, k: vm_.call(Padding, [a[0]], {})


class Native:
    def __init__(self, nvm):
        self.nvm = nvm

    def __enter__(self):
        import asyncio
        import os
        from harness.C01 import ModelFuture
        env = NativeEnvP(self.nvm)
        self.saved_env = ENVP[0]
        ENVP[0] = env

        class StatResult:
            def __init__(self, size):
                self.st_size = size

        class Ready:
            def __init__(self, v):
                self.v = v

            def __await__(self):
                return self.v
                yield

        class Loop:
            def run_in_executor(self, ex, fn, *a):
                return Ready(fn(*a))
        self.saved = (os.stat, D.read_bytes, asyncio.get_event_loop, asyncio.Future, asyncio.Event, D.BlobFile, LOOP[0], C01_VM[0])
        real_stat = os.stat
        os.stat = lambda p, *a, **k: StatResult(len(env.content)) if p == '/virtual/file' else real_stat(p, *a, **k)
        D.read_bytes = lambda path, offset, n: env.content[offset:offset + n]
        asyncio.get_event_loop = lambda: Loop()
        asyncio.Future, asyncio.Event = ModelFuture, Event
        D.BlobFile = MemBlob

    def __exit__(self, *a):
        import asyncio
        import os
        (os.stat, D.read_bytes, asyncio.get_event_loop, asyncio.Future, asyncio.Event, D.BlobFile, LOOP[0], C01_VM[0]) = self.saved
        ENVP[0] = self.saved_env


def jobs(tier):
    return [dict(name='publish-decrypt', family='publish', fn='publish', args=(), loop_bound=200, max_depth=80, cost=400,
                 bounds=dict(file_size='each of %s bytes (1, AES block boundaries, exactly one blob of plaintext, one byte more, two blobs, '
                             'one byte more)' % SIZES, content='opaque run (any bytes)', key_and_ivs='fixed distinct values (the cipher is ideal)',
                             field_order='current and old'), must_reach=('ok-1-blobs', 'ok-2-blobs', 'ok-3-blobs'))]


def _iv_reused_for_terminator(node):
    """Canary: the terminator takes the IV of the last data blob instead of a fresh one."""
    import ast
    for n in ast.walk(node):
        if isinstance(n, ast.Call) and ast.unparse(n.func) == 'BlobInfo' and 'next(iv_generator)' in ast.unparse(n):
            for a in ast.walk(n):
                if isinstance(a, ast.Call) and ast.unparse(a) == 'next(iv_generator)':
                    a.func = ast.Name(id='bytes', ctx=ast.Load())
                    a.args = [ast.parse('binascii.unhexlify(blobs[-1].iv)', mode='eval').body]
                    return True
    return False


def _length_of_plaintext(node):
    """Canary: the blob info records the plaintext length instead of the ciphertext length."""
    import ast
    for n in ast.walk(node):
        if isinstance(n, ast.Assign) and ast.unparse(n) == 'length = len(blob_bytes)':
            n.value = ast.parse('len(unencrypted)', mode='eval').body
            return True
    return False


CANARIES = [
    dict(name='terminator-reuses-iv', target='lbry.stream.descriptor:StreamDescriptor.create_stream', mutate=_iv_reused_for_terminator,
         job=dict(family='publish', fn='publish', args=(), loop_bound=200, max_depth=80)),
    dict(name='plaintext-length-recorded', target='lbry.blob.blob_file:AbstractBlob.create_from_unencrypted', mutate=_length_of_plaintext,
         job=dict(family='publish', fn='publish', args=(), loop_bound=200, max_depth=80)),
]
