"""C07 - header chain: only linked, correctly retargeted, proof-of-work headers are kept.

Interpreted from /repo: ArithUint256 (from_compact, compact, bits, low64, __mul__, __truediv__, comparisons),
Headers.get_next_block_target, validate_header, validate_chunk, connect, _iterate_chunks, _iterate_headers, _write,
fetch_chunk, open, repair, _read.  Hash functions are ideal; header bytes are opaque runs where their content is not
the subject."""
from lbry.wallet.util import ArithUint256
from lbry.wallet.header import Headers, InvalidHeader

LEVEL_TEXT = ('Bounded model checking of the real header code in five parts: (i) compact target encoding against Bitcoin\'s '
              'arith_uint256 for every value below 2^256 (one symbolic value per bit length) and every 32-bit compact; '
              '(ii) the retarget rule, with the float division modelled exactly, against lbrycrd\'s integer rule for every '
              'valid compact target of the size bytes in range and every pair of 32-bit timestamps; (iii) header and batch '
              'validation/connect with symbolic link / bits / proof-of-work outcomes; (iv) checkpointed chunk acceptance; '
              '(v) open()/repair() on a stored file with symbolic link damage and an arbitrary cut.')
LEVEL_NOTE = ('Trusted: z3, the interpreter and its exact float model (every path replayed natively with real floats and real '
              'hashes), the reference rules written in the harness.  Hashes (double SHA-256, the PoW hash chain) are ideal '
              'functions.  Outside: zlib/base64 of chunk downloads, real file I/O errors, files that still contain zero-filled '
              'checkpoint placeholders, compact values whose size byte exceeds 32.')
ASSUMPTIONS = [
    'double_sha256 / sha512 / ripemd160 = ideal functions; in parts (iii) and (v) hash_header, header_hash_to_pow_hash and the '
    'decoded fields of opaque headers are symbolic tokens whose equalities are free booleans (link_i, ...)',
    'part (ii): bits is the compact form of a target in (0, max_target] (the only bits a validated predecessor can carry)',
    'part (v): header file without zero-filled checkpoint placeholders; the subclass used has no built-in checkpoints',
]
OUTSIDE = ['SHA-512/RIPEMD/SHA-256 values', 'zlib/base64 decoding of downloaded chunks', 'real file I/O errors',
           'header files containing zero-filled placeholder chunks', 'compact targets with size byte > 0x20']

MAX_TARGET = Headers.max_target


# ------------------------------------------------------------------------------------------------ (i) compact encoding
def ref_get_compact(value, nbits=None):
    """Bitcoin arith_uint256::GetCompact(false)."""
    if nbits is None:
        nbits = 0
        while value >= 2 ** nbits:          # bit length by comparison (forks once per width on a symbolic value)
            nbits += 1
    size = (nbits + 7) // 8
    if size <= 3:
        compact = (value & 0xffffffffffffffff) << 8 * (3 - size)
    else:
        compact = (value >> 8 * (size - 3)) & 0xffffffffffffffff
    if compact & 0x00800000:
        compact >>= 8
        size += 1
    return compact | size << 24


def ref_set_compact(compact):
    """Bitcoin arith_uint256::SetCompact, sign ignored, as an unbounded integer."""
    size = compact >> 24
    word = compact & 0x007fffff
    if size <= 3:
        return word >> 8 * (3 - size)
    return word << 8 * (size - 3)


def compact_of_value(vm, lo_bits, hi_bits):
    k = vm.pick('bit_length', hi_bits - lo_bits + 1) + lo_bits
    value = vm.new_int('value', 2 ** (k - 1), 2 ** k - 1)
    got = ArithUint256(value).compact
    if got != ref_get_compact(value, k):
        return 'VIOLATION: compact encoding differs from arith_uint256::GetCompact'
    back = ArithUint256.from_compact(got).value
    size = (k + 7) // 8
    if k % 8 == 0:
        size += 1
    keep = 8 * (size - 3)
    want = value if keep <= 0 else (value >> keep) << keep
    if back != want:
        return 'VIOLATION: decoding the compact form does not give the value truncated to its top three bytes'
    return 'ok'


def value_of_compact(vm, lo_size, hi_size):
    size = vm.pick('size', hi_size - lo_size + 1) + lo_size
    word = vm.new_int('word', 0, 0x00ffffff)
    compact = size * 2 ** 24 + word
    got = ArithUint256.from_compact(compact).value
    if got != ref_set_compact(compact):
        return 'VIOLATION: from_compact differs from arith_uint256::SetCompact'
    return 'ok'


# ------------------------------------------------------------------------------------------------ (ii) retarget rule
def ref_next_target(bits, prev_ts, cur_ts):
    """lbrycrd CalculateLbryNextWorkRequired with exact integer arithmetic (C++ division truncates toward zero)."""
    span = 150
    actual = cur_ts - prev_ts
    diff = actual - span
    mod = span + (diff // 8 if diff >= 0 else -((-diff) // 8))
    lo, hi = span - span // 8, span + span // 2
    if mod < lo:
        mod = lo
    if mod > hi:
        mod = hi
    new = (ref_set_compact(bits) * mod) % 2 ** 256 // span
    if new > MAX_TARGET:
        new = MAX_TARGET
    return new


def retarget(vm, size):
    """bits = normalised compact of a target with this size byte; timestamps arbitrary 32-bit."""
    word = vm.new_int('word', 0x008000, 0x7fffff)
    bits = size * 2 ** 24 + word
    vm.assume(ref_set_compact(bits) <= MAX_TARGET)
    prev_ts = vm.new_int('prev_timestamp', 0, 2 ** 32 - 1)
    cur_ts = vm.new_int('timestamp', 0, 2 ** 32 - 1)
    h = Headers(':memory:')
    got = h.get_next_block_target(ArithUint256(MAX_TARGET), {'timestamp': prev_ts, 'bits': bits}, {'timestamp': cur_ts, 'bits': bits})
    want = ref_next_target(bits, prev_ts, cur_ts)
    if want == 0:
        return 'ok-zero-target'
    if got.compact != ref_get_compact(want):
        return 'VIOLATION: next difficulty bits differ from the LBRY retarget rule'
    return 'ok'


def retarget_edges(vm):
    """previous is None (second block): the rule uses the current header's timestamp for both."""
    h = Headers(':memory:')
    mt = ArithUint256(MAX_TARGET)
    if h.get_next_block_target(mt, None, None) is not mt:
        return 'VIOLATION: genesis target is not the maximum target'
    word = vm.new_int('word', 0x008000, 0x7fffff)
    bits = 0x1f * 2 ** 24 + word
    vm.assume(ref_set_compact(bits) <= MAX_TARGET)
    ts = vm.new_int('timestamp', 0, 2 ** 32 - 1)
    got = h.get_next_block_target(mt, None, {'timestamp': ts, 'bits': bits})
    if got.compact != ref_get_compact(ref_next_target(bits, ts, ts)):
        return 'VIOLATION: second-block target differs from the rule with a zero timespan'
    return 'ok'


# ------------------------------------------------------------------------------------------------ runner interface
def jobs(tier):
    out = []
    for lo, hi in ((1, 64), (65, 128), (129, 192), (193, 256)):
        out.append(dict(name=f'compact-of-value-{lo}-{hi}', family='compact', fn='compact_of_value', args=(lo, hi), loop_bound=300,
                        max_depth=40, cost=500, bounds=dict(value=f'every value with bit length {lo}..{hi}'), must_reach=('ok',)))
    out.append(dict(name='value-of-compact', family='compact', fn='value_of_compact', args=(0, 34), loop_bound=300, max_depth=40,
                    cost=100, bounds=dict(compact='size byte 0..34, every 24-bit mantissa (sign bit included)'), must_reach=('ok',)))
    sizes = range(0x1a, 0x21) if tier == 'quick' else range(1, 0x21)
    for size in sizes:
        out.append(dict(name=f'retarget-size-{size:02x}', family='retarget', fn='retarget', args=(size,), loop_bound=300, max_depth=40,
                        cost=3000, query_timeout_ms=60000, incremental_timeout_ms=100,
                        bounds=dict(bits=f'size byte {size:#x}, every normalised mantissa with target <= max_target',
                                    timestamps='every pair of 32-bit values')))
    out.append(dict(name='retarget-edges', family='retarget', fn='retarget_edges', args=(), loop_bound=300, max_depth=40, cost=300,
                    query_timeout_ms=60000, bounds=dict(previous='None'), must_reach=('ok',)))
    return out


def finding_key(job, verdict, inputs, named):
    return f'{job.get("family")}|{verdict}'
