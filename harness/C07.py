"""C07 - header chain: only linked, correctly retargeted, proof-of-work headers are kept.

Interpreted from /repo: ArithUint256 (from_compact, compact, bits, low64, __mul__, __truediv__, comparisons),
Headers.get_next_block_target, validate_header, validate_chunk, connect, _iterate_chunks, _iterate_headers, _write,
fetch_chunk, open, repair, _read.  Hash functions are ideal; header bytes are opaque runs where their content is not
the subject."""
from lbry.wallet.util import ArithUint256
from lbry.wallet.header import Headers, InvalidHeader

LEVEL_TEXT = ('Bounded model checking of the real header code, parts (i), (ii) and (v) of five planned (batch validation/connect and checkpointed chunks are not built yet): (i) compact target encoding against Bitcoin\'s '
              'arith_uint256 for every value below 2^256 (one symbolic value per bit length) and every 32-bit compact; '
              '(ii) the retarget rule, with the float division modelled exactly, against lbrycrd\'s integer rule for every '
              'valid compact target of the size bytes in range and every pair of 32-bit timestamps; (iii) header and batch '
              'validation/connect with symbolic link / bits / proof-of-work outcomes; (iv) checkpointed chunk acceptance; '
              '(v) open()/repair() on a stored file with symbolic link damage and an arbitrary cut.')
LEVEL_NOTE = ('Trusted: z3, the interpreter and its exact float model (every path replayed natively with real floats and real '
              'hashes), the reference rules written in the harness.  Hashes (double SHA-256, the PoW hash chain) are ideal '
              'functions.  Outside: zlib/base64 of chunk downloads, real file I/O errors, files that still contain zero-filled '
              'checkpoint placeholders, compact values whose size byte exceeds 32.')
ASSUMPTIONS = [
    'double_sha256 / sha512 / ripemd160 = ideal functions; in parts (iii) and (v) hash_header, header_hash_to_pow_hash and the '
    'decoded fields of opaque headers are symbolic tokens whose equalities are free booleans (link_i, ...)',
    'part (ii): bits is the compact form of a target in (0, max_target] (the only bits a validated predecessor can carry)',
    'part (v): header file without zero-filled checkpoint placeholders; the subclass used has no built-in checkpoints',
]
OUTSIDE = ['SHA-512/RIPEMD/SHA-256 values', 'zlib/base64 decoding of downloaded chunks', 'real file I/O errors',
           'header files containing zero-filled placeholder chunks', 'compact targets with size byte > 0x20']

MAX_TARGET = Headers.max_target


# ------------------------------------------------------------------------------------------------ (i) compact encoding
def ref_get_compact(value, nbits=None):
    """Bitcoin arith_uint256::GetCompact(false)."""
    if nbits is None:
        nbits = 0
        while value >= 2 ** nbits:          # bit length by comparison (forks once per width on a symbolic value)
            nbits += 1
    size = (nbits + 7) // 8
    if size <= 3:
        compact = (value & 0xffffffffffffffff) << 8 * (3 - size)
    else:
        compact = (value >> 8 * (size - 3)) & 0xffffffffffffffff
    if compact & 0x00800000:
        compact >>= 8
        size += 1
    return compact | size << 24


def ref_set_compact(compact):
    """Bitcoin arith_uint256::SetCompact, sign ignored, as an unbounded integer."""
    size = compact >> 24
    word = compact & 0x007fffff
    if size <= 3:
        return word >> 8 * (3 - size)
    return word << 8 * (size - 3)


def compact_of_value(vm, lo_bits, hi_bits):
    k = vm.pick('bit_length', hi_bits - lo_bits + 1) + lo_bits
    value = vm.new_int('value', 2 ** (k - 1), 2 ** k - 1)
    got = ArithUint256(value).compact
    if got != ref_get_compact(value, k):
        return 'VIOLATION: compact encoding differs from arith_uint256::GetCompact'
    back = ArithUint256.from_compact(got).value
    size = (k + 7) // 8
    if k % 8 == 0:
        size += 1
    keep = 8 * (size - 3)
    want = value if keep <= 0 else (value >> keep) << keep
    if back != want:
        return 'VIOLATION: decoding the compact form does not give the value truncated to its top three bytes'
    return 'ok'


def value_of_compact(vm, lo_size, hi_size):
    size = vm.pick('size', hi_size - lo_size + 1) + lo_size
    word = vm.new_int('word', 0, 0x00ffffff)
    compact = size * 2 ** 24 + word
    got = ArithUint256.from_compact(compact).value
    if got != ref_set_compact(compact):
        return 'VIOLATION: from_compact differs from arith_uint256::SetCompact'
    return 'ok'


# ------------------------------------------------------------------------------------------------ (ii) retarget rule
def ref_next_target(bits, prev_ts, cur_ts):
    """lbrycrd CalculateLbryNextWorkRequired with exact integer arithmetic (C++ division truncates toward zero)."""
    span = 150
    actual = cur_ts - prev_ts
    diff = actual - span
    mod = span + (diff // 8 if diff >= 0 else -((-diff) // 8))
    lo, hi = span - span // 8, span + span // 2
    if mod < lo:
        mod = lo
    if mod > hi:
        mod = hi
    new = (ref_set_compact(bits) * mod) % 2 ** 256 // span
    if new > MAX_TARGET:
        new = MAX_TARGET
    return new


def retarget(vm, size):
    """bits = normalised compact of a target with this size byte; timestamps arbitrary 32-bit."""
    word = vm.new_int('word', 0x008000, 0x7fffff)
    bits = size * 2 ** 24 + word
    vm.assume(ref_set_compact(bits) <= MAX_TARGET)
    prev_ts = vm.new_int('prev_timestamp', 0, 2 ** 32 - 1)
    cur_ts = vm.new_int('timestamp', 0, 2 ** 32 - 1)
    h = Headers(':memory:')
    got = h.get_next_block_target(ArithUint256(MAX_TARGET), {'timestamp': prev_ts, 'bits': bits}, {'timestamp': cur_ts, 'bits': bits})
    want = ref_next_target(bits, prev_ts, cur_ts)
    if want == 0:
        return 'ok-zero-target'
    if got.compact != ref_get_compact(want):
        return 'VIOLATION: next difficulty bits differ from the LBRY retarget rule'
    return 'ok'


def retarget_edges(vm):
    """previous is None (second block): the rule uses the current header's timestamp for both."""
    h = Headers(':memory:')
    mt = ArithUint256(MAX_TARGET)
    if h.get_next_block_target(mt, None, None) is not mt:
        return 'VIOLATION: genesis target is not the maximum target'
    word = vm.new_int('word', 0x008000, 0x7fffff)
    bits = 0x1f * 2 ** 24 + word
    vm.assume(ref_set_compact(bits) <= MAX_TARGET)
    ts = vm.new_int('timestamp', 0, 2 ** 32 - 1)
    got = h.get_next_block_target(mt, None, {'timestamp': ts, 'bits': bits})
    if got.compact != ref_get_compact(ref_next_target(bits, ts, ts)):
        return 'VIOLATION: second-block target differs from the rule with a zero timespan'
    return 'ok'


# ------------------------------------------------------------------------------------------------ (v) reopen / repair
ENV = [None]


class Ready:
    """Awaitable that is already complete (run_in_executor of the model loop)."""

    def __init__(self, v):
        self.v = v

    def __vm_await__(self, vm):
        return self.v

    def __await__(self):
        return self.v
        yield


class LoopModel:
    def run_in_executor(self, executor, fn):
        return Ready(fn())


class FileModel:
    def __init__(self, content):
        self.content = content

    def __enter__(self):
        return self

    def __exit__(self, *a):
        return False

    def read(self):
        return self.content


class HashTok:
    """hash_header(header i) in the symbolic runs: an abstract value; only its equalities matter."""

    def __init__(self, i):
        self.i = i

    def __symeq__(self, other, vm):
        if isinstance(other, HashTok):
            return self.i == other.i
        if isinstance(other, PrevTok):
            return other.__symeq__(self, vm)
        if isinstance(other, bytes):                      # compared with the built-in genesis hash
            return vm.named_bool('genesis_ok') if self.i == 0 else False
        return False


class PrevTok:
    """prev_block_hash field of header i."""

    def __init__(self, i):
        self.i = i

    def __symeq__(self, other, vm):
        if isinstance(other, HashTok):
            if other.i == self.i - 1:
                return vm.named_bool('link%d' % self.i)
            return False                                   # never equals the hash of a non-predecessor (ideal hash)
        return isinstance(other, PrevTok) and other.i == self.i


class RepairHeaders(Headers):
    """Real Headers with the two checkpoint-download steps of open() switched off (they need the network)."""
    checkpoints = {}
    validate_difficulty = False

    async def ensure_checkpointed_size(self):
        return None

    async def get_all_missing_headers(self):
        return None


def reopen(vm, n, start, cut):
    """A stored file of n headers (+ `cut` stray bytes of a torn write), link(i) symbolic per header: open() must load a
    valid prefix and drop at most the headers from one before the first damaged one."""
    env = ENV[0]
    h = env.make(vm, n, start, cut)
    try:
        vm.await_(h.open())
    except Exception as e:
        return 'VIOLATION: open() raised %s on a damaged header file' % type(e).__name__
    loaded = len(h)
    first = start if (cut or start == 0) else start          # repair(0) after a torn write, else repair(start)
    if cut:
        first = 0
    first_bad = None
    if first == 0 and n > 0 and not env.genesis_ok(vm):
        first_bad = 0
    if first_bad is None:
        for i in range(first + 1, n):
            if not env.link(vm, i):
                first_bad = i
                break
    if first_bad is None:
        if loaded != n:
            return 'VIOLATION: intact header file truncated to %d of %d headers' % (loaded, n)
        return 'ok-intact'
    if loaded > first_bad:
        return 'VIOLATION: header %d whose link is broken is still loaded (loaded %d of %d, checked from %d)' % (
            first_bad, loaded, n, first)
    if loaded < first_bad - 1:
        return 'VIOLATION: dropped more than one header before the first broken link'
    return 'ok-truncated'


class SymEnv:
    def make(self, vm, n, start, cut):
        from symvm.sv import SBytes, Run
        atoms = [Run('hdr%d' % i, 0, 112) for i in range(n)]
        if cut:
            atoms.append(Run('torn', 0, cut))
        self.content = SBytes(atoms) if atoms else b''
        RepairHeaders.checkpoints = {start - 1000: 'unused'}
        return RepairHeaders('HEADERS')

    def link(self, vm, i):
        return vm.named_bool('link%d' % i)

    def genesis_ok(self, vm):
        return vm.named_bool('genesis_ok')


class NativeEnv:
    """Builds a real header file in which header i links to header i-1 exactly when link_i is set in the model."""

    def make(self, vm, n, start, cut):
        import tempfile
        from lbry.crypto.hash import double_sha256
        self.dir = tempfile.mkdtemp(prefix='vhdr-')
        path = self.dir + '/headers'
        prev = b'\x00' * 32
        blob = b''
        first_hash = None
        for i in range(n):
            link = i == 0 or vm.named_bool('link%d' % i)
            field = prev if link else bytes([0xEE]) * 32
            hdr = (1).to_bytes(4, 'little') + field + bytes([i % 251 + 1]) * 32 + bytes([7]) * 32 + (1500000000 + i).to_bytes(4, 'little') \
                + (0x1f00ffff).to_bytes(4, 'little') + i.to_bytes(4, 'little')
            blob += hdr
            prev = double_sha256(hdr)
            if i == 0:
                first_hash = Headers.hash_header(hdr)
        with open(path, 'wb') as f:
            f.write(blob + b'\x55' * cut)
        RepairHeaders.checkpoints = {start - 1000: 'unused'}
        RepairHeaders.genesis_hash = first_hash if (n and vm.named_bool('genesis_ok')) else b'00' * 32
        return RepairHeaders(path)

    def link(self, vm, i):
        return vm.named_bool('link%d' % i)

    def genesis_ok(self, vm):
        return vm.named_bool('genesis_ok')

    def cleanup(self):
        import shutil
        shutil.rmtree(getattr(self, 'dir', '/nonexistent'), ignore_errors=True)


def sym_setup(vm, job):
    import asyncio
    import builtins
    import os
    if job.get('family') != 'reopen':
        return
    env = SymEnv()
    ENV[0] = env

    def idx_of(b):
        from symvm.sv import SBytes, Run
        a = vm.norm_atoms(list(b.a)) if isinstance(b, SBytes) else None
        if not a or len(a) != 1 or not isinstance(a[0], Run) or not a[0].rid.startswith('hdr') or a[0].off != 0:
            from symvm.sv import Unsupported
            raise Unsupported('header model: hash/deserialize of something that is not one whole stored header: %r' % (b,))
        return int(a[0].rid[3:])
    vm.models[id(Headers.hash_header)] = lambda vm_, a, k: HashTok(idx_of(a[0]))
    vm.models[id(Headers.deserialize)] = lambda vm_, a, k: {'prev_block_hash': PrevTok(idx_of(a[1])), 'block_height': a[0],
                                                            'version': 1, 'timestamp': 0, 'bits': 0, 'nonce': 0}
    vm.models[id(asyncio.get_event_loop)] = lambda vm_, a, k: LoopModel()
    vm.models[id(os.path.exists)] = lambda vm_, a, k: True
    vm.models[id(builtins.open)] = lambda vm_, a, k: FileModel(env.content)


class _NativeCtx:
    def __init__(self):
        self.env = NativeEnv()

    def __enter__(self):
        self.saved = (ENV[0], RepairHeaders.checkpoints, RepairHeaders.genesis_hash)
        ENV[0] = self.env
        import asyncio
        self.loop = asyncio.new_event_loop()
        asyncio.set_event_loop(self.loop)

    def __exit__(self, *a):
        self.env.cleanup()
        self.loop.close()
        ENV[0], RepairHeaders.checkpoints, RepairHeaders.genesis_hash = self.saved     # the symbolic run continues


def native_setup(nvm, job):
    if job.get('family') != 'reopen':
        return None
    ctx = _NativeCtx()
    # open() awaits run_in_executor: drive the real coroutine on a real loop
    nvm.await_ = lambda aw: ctx.loop.run_until_complete(aw) if hasattr(aw, '__await__') and not hasattr(aw, '__vm_await__') else aw.v
    return ctx


# ------------------------------------------------------------------------------------------------ runner interface
def jobs(tier):
    out = []
    for lo, hi in ((1, 64), (65, 128), (129, 192), (193, 256)):
        out.append(dict(name=f'compact-of-value-{lo}-{hi}', family='compact', fn='compact_of_value', args=(lo, hi), loop_bound=300,
                        max_depth=40, cost=500, bounds=dict(value=f'every value with bit length {lo}..{hi}'), must_reach=('ok',)))
    out.append(dict(name='value-of-compact', family='compact', fn='value_of_compact', args=(0, 34), loop_bound=300, max_depth=40,
                    cost=100, bounds=dict(compact='size byte 0..34, every 24-bit mantissa (sign bit included)'), must_reach=('ok',)))
    sizes = range(0x1a, 0x21) if tier == 'quick' else range(1, 0x21)
    for size in sizes:
        out.append(dict(name=f'retarget-size-{size:02x}', family='retarget', fn='retarget', args=(size,), loop_bound=300, max_depth=40,
                        cost=3000, query_timeout_ms=60000, incremental_timeout_ms=100,
                        bounds=dict(bits=f'size byte {size:#x}, every normalised mantissa with target <= max_target',
                                    timestamps='every pair of 32-bit values')))
    out.append(dict(name='retarget-edges', family='retarget', fn='retarget_edges', args=(), loop_bound=300, max_depth=40, cost=300,
                    query_timeout_ms=60000, bounds=dict(previous='None'), must_reach=('ok',)))
    ns = [1, 2, 5, 37, 38, 40, 41, 76] if tier == 'quick' else [1, 2, 3, 4, 5, 36, 37, 38, 39, 40, 41, 42, 73, 76, 77, 112, 120]
    for n in ns:
        for start, cut in ((0, 0), (3, 0), (3, 57)):
            if start >= n and not cut:
                continue
            out.append(dict(name=f'reopen-{n}headers-from{start}' + (f'-torn{cut}' if cut else ''), family='reopen', fn='reopen',
                            args=(n, start, cut), loop_bound=400, max_depth=60, cost=10 * n,
                            bounds=dict(stored_headers=n, checked_above=0 if cut else start, torn_bytes=cut,
                                        links='one symbolic boolean per header')))
    return out


def finding_key(job, verdict, inputs, named):
    import re
    verdict = re.sub(r'header \d+ whose link is broken is still loaded \(.*\)', 'header with a broken link is still loaded', verdict)
    return f'{job.get("family")}|{verdict}'


def _const(frm, to):
    def mutate(node):
        import ast
        for n in ast.walk(node):
            if isinstance(n, ast.Constant) and n.value == frm and not isinstance(n.value, bool):
                n.value = to
                return True
        return False
    return mutate


def _repair_tip(node):
    """Canary: re-introduce the skipped tip (range(..., self.height + 1, ...) -> range(..., self.height, ...))."""
    import ast
    for n in ast.walk(node):
        if isinstance(n, ast.For) and isinstance(n.iter, ast.Call) and getattr(n.iter.func, 'id', '') == 'range' \
                and isinstance(n.iter.args[1], ast.BinOp):
            n.iter.args[1] = n.iter.args[1].left
            return True
    return False


CANARIES = [
    dict(name='compact-sign-bit-test', target='lbry.wallet.util:ArithUint256._calculate_compact', mutate=_const(0x00800000, 0x00400000),
         job=dict(family='compact', fn='compact_of_value', args=(1, 64), loop_bound=300, max_depth=40)),
    dict(name='retarget-max-timespan', target='lbry.wallet.header:Headers.get_next_block_target', mutate=_const(2, 4),
         job=dict(family='retarget', fn='retarget', args=(0x1d,), loop_bound=300, max_depth=40, query_timeout_ms=60000,
                  incremental_timeout_ms=100)),
    dict(name='repair-skips-tip', target='lbry.wallet.header:Headers.repair', mutate=_repair_tip,
         job=dict(family='reopen', fn='reopen', args=(40, 3, 0), loop_bound=400, max_depth=60)),
]
