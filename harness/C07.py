"""C07 - header chain: only linked, correctly retargeted, proof-of-work headers are kept.

Interpreted from /repo: ArithUint256 (from_compact, compact, bits, low64, __mul__, __truediv__, comparisons),
Headers.get_next_block_target, validate_header, validate_chunk, connect, _iterate_chunks, _iterate_headers, _write,
fetch_chunk, open, repair, _read.  Hash functions are ideal; header bytes are opaque runs where their content is not
the subject."""
from lbry.wallet.util import ArithUint256
from lbry.wallet.header import Headers, InvalidHeader

LEVEL_TEXT = ('Bounded model checking of the real header code in five parts: (i) compact target encoding against Bitcoin\'s '
              'arith_uint256 for every value below 2^256 (one symbolic value per bit length) and every 32-bit compact; '
              '(ii) the retarget rule, with the float division modelled exactly, against lbrycrd\'s integer rule for every '
              'valid compact target of the size bytes in range and every pair of 32-bit timestamps; (iii) connect / validate_chunk / '
              'validate_header on a batch whose first invalid header and the reason (link, bits, proof of work) are chosen by the '
              'solver, for several stored-chain lengths, connection points (extension and forks), chunk sizes and splits into calls: '
              'nothing at or beyond the first invalid header is stored, a valid batch is stored whole; (iv) a downloaded checkpoint '
              'chunk is stored iff it hashes to the built-in checkpoint; '
              '(v) open()/repair() on a stored file with symbolic link damage and an arbitrary cut.')
LEVEL_NOTE = ('Trusted: z3, the interpreter and its exact float model (every path replayed natively with real floats and real '
              'hashes), the reference rules written in the harness.  Hashes (double SHA-256, the PoW hash chain) are ideal '
              'functions.  Outside: zlib/base64 of chunk downloads, real file I/O errors, files that still contain zero-filled '
              'checkpoint placeholders, compact values whose size byte exceeds 32.')
ASSUMPTIONS = [
    'double_sha256 / sha512 / ripemd160 = ideal functions; in parts (iii) and (v) hash_header, header_hash_to_pow_hash and the '
    'decoded fields of opaque headers are symbolic tokens whose equalities are free booleans (link_i, ...)',
    'part (ii): bits is the compact form of a target in (0, max_target] (the only bits a validated predecessor can carry)',
    'part (iii): the retarget rule is replaced by a constant target (it is part ii) and the PoW value of batch header j is below the '
    'target iff pow_ok_j; the stored chain is valid; a client stops submitting after a batch that was not fully accepted',
    'part (iv): base64/zlib decoding is the identity on an opaque chunk',
    'part (v): header file without zero-filled checkpoint placeholders; the subclass used has no built-in checkpoints',
]
OUTSIDE = ['SHA-512/RIPEMD/SHA-256 values', 'zlib/base64 decoding of downloaded chunks', 'real file I/O errors',
           'header files containing zero-filled placeholder chunks', 'compact targets with size byte > 0x20']

MAX_TARGET = Headers.max_target
BUDGET_S = {'thorough': 5400}        # runaway guard only: the four size bytes decided through cvc5 add about 15 minutes on 16 cores


# ------------------------------------------------------------------------------------------------ (i) compact encoding
def ref_get_compact(value, nbits=None):
    """Bitcoin arith_uint256::GetCompact(false)."""
    if nbits is None:
        nbits = 0
        while value >= 2 ** nbits:          # bit length by comparison (forks once per width on a symbolic value)
            nbits += 1
    size = (nbits + 7) // 8
    if size <= 3:
        compact = (value & 0xffffffffffffffff) << 8 * (3 - size)
    else:
        compact = (value >> 8 * (size - 3)) & 0xffffffffffffffff
    if compact & 0x00800000:
        compact >>= 8
        size += 1
    return compact | size << 24


def ref_set_compact(compact):
    """Bitcoin arith_uint256::SetCompact, sign ignored, as an unbounded integer."""
    size = compact >> 24
    word = compact & 0x007fffff
    if size <= 3:
        return word >> 8 * (3 - size)
    return word << 8 * (size - 3)


def compact_of_value(vm, lo_bits, hi_bits):
    k = vm.pick('bit_length', hi_bits - lo_bits + 1) + lo_bits
    value = vm.new_int('value', 2 ** (k - 1), 2 ** k - 1)
    got = ArithUint256(value).compact
    if got != ref_get_compact(value, k):
        return 'VIOLATION: compact encoding differs from arith_uint256::GetCompact'
    back = ArithUint256.from_compact(got).value
    size = (k + 7) // 8
    if k % 8 == 0:
        size += 1
    keep = 8 * (size - 3)
    want = value if keep <= 0 else (value >> keep) << keep
    if back != want:
        return 'VIOLATION: decoding the compact form does not give the value truncated to its top three bytes'
    return 'ok'


def value_of_compact(vm, lo_size, hi_size):
    size = vm.pick('size', hi_size - lo_size + 1) + lo_size
    word = vm.new_int('word', 0, 0x00ffffff)
    compact = size * 2 ** 24 + word
    got = ArithUint256.from_compact(compact).value
    if got != ref_set_compact(compact):
        return 'VIOLATION: from_compact differs from arith_uint256::SetCompact'
    return 'ok'


# ------------------------------------------------------------------------------------------------ (ii) retarget rule
def ref_next_target(bits, prev_ts, cur_ts):
    """lbrycrd CalculateLbryNextWorkRequired with exact integer arithmetic (C++ division truncates toward zero)."""
    span = 150
    actual = cur_ts - prev_ts
    diff = actual - span
    mod = span + (diff // 8 if diff >= 0 else -((-diff) // 8))
    lo, hi = span - span // 8, span + span // 2
    if mod < lo:
        mod = lo
    if mod > hi:
        mod = hi
    new = (ref_set_compact(bits) * mod) % 2 ** 256 // span
    if new > MAX_TARGET:
        new = MAX_TARGET
    return new


def retarget(vm, size):
    """bits = normalised compact of a target with this size byte; timestamps arbitrary 32-bit."""
    word = vm.new_int('word', 0x008000, 0x7fffff)
    bits = size * 2 ** 24 + word
    vm.assume(ref_set_compact(bits) <= MAX_TARGET)
    prev_ts = vm.new_int('prev_timestamp', 0, 2 ** 32 - 1)
    cur_ts = vm.new_int('timestamp', 0, 2 ** 32 - 1)
    h = Headers(':memory:')
    got = h.get_next_block_target(ArithUint256(MAX_TARGET), {'timestamp': prev_ts, 'bits': bits}, {'timestamp': cur_ts, 'bits': bits})
    want = ref_next_target(bits, prev_ts, cur_ts)
    if want == 0:
        return 'ok-zero-target'
    if got.compact != ref_get_compact(want):
        return 'VIOLATION: next difficulty bits differ from the LBRY retarget rule'
    return 'ok'


def retarget_edges(vm):
    """previous is None (second block): the rule uses the current header's timestamp for both."""
    h = Headers(':memory:')
    mt = ArithUint256(MAX_TARGET)
    if h.get_next_block_target(mt, None, None) is not mt:
        return 'VIOLATION: genesis target is not the maximum target'
    word = vm.new_int('word', 0x008000, 0x7fffff)
    bits = 0x1f * 2 ** 24 + word
    vm.assume(ref_set_compact(bits) <= MAX_TARGET)
    ts = vm.new_int('timestamp', 0, 2 ** 32 - 1)
    got = h.get_next_block_target(mt, None, {'timestamp': ts, 'bits': bits})
    if got.compact != ref_get_compact(ref_next_target(bits, ts, ts)):
        return 'VIOLATION: second-block target differs from the rule with a zero timespan'
    return 'ok'


# ------------------------------------------------------------------------------------------------ (v) reopen / repair
ENV = [None]


class Ready:
    """Awaitable that is already complete (run_in_executor of the model loop)."""

    def __init__(self, v):
        self.v = v

    def __vm_await__(self, vm):
        return self.v

    def __await__(self):
        return self.v
        yield


class LoopModel:
    def run_in_executor(self, executor, fn):
        return Ready(fn())


class FileModel:
    def __init__(self, content):
        self.content = content

    def __enter__(self):
        return self

    def __exit__(self, *a):
        return False

    def read(self):
        return self.content


class HashTok:
    """hash_header(header i) in the symbolic runs: an abstract value; only its equalities matter."""

    def __init__(self, i):
        self.i = i

    def __symeq__(self, other, vm):
        if isinstance(other, HashTok):
            return self.i == other.i
        if isinstance(other, PrevTok):
            return other.__symeq__(self, vm)
        if isinstance(other, bytes):                      # compared with the built-in genesis hash
            return vm.named_bool('genesis_ok') if self.i == 0 else False
        return False


class PrevTok:
    """prev_block_hash field of header i."""

    def __init__(self, i):
        self.i = i

    def __symeq__(self, other, vm):
        if isinstance(other, HashTok):
            if other.i == self.i - 1:
                return vm.named_bool('link%d' % self.i)
            return False                                   # never equals the hash of a non-predecessor (ideal hash)
        return isinstance(other, PrevTok) and other.i == self.i


class RepairHeaders(Headers):
    """Real Headers with the two checkpoint-download steps of open() switched off (they need the network)."""
    checkpoints = {}
    validate_difficulty = False

    async def ensure_checkpointed_size(self):
        return None

    async def get_all_missing_headers(self):
        return None


def reopen(vm, n, start, cut):
    """A stored file of n headers (+ `cut` stray bytes of a torn write), link(i) symbolic per header: open() must load a
    valid prefix and drop at most the headers from one before the first damaged one."""
    env = ENV[0]
    h = env.make(vm, n, start, cut)
    try:
        vm.await_(h.open())
    except Exception as e:
        return 'VIOLATION: open() raised %s on a damaged header file' % type(e).__name__
    loaded = len(h)
    first = start if (cut or start == 0) else start          # repair(0) after a torn write, else repair(start)
    if cut:
        first = 0
    first_bad = None
    if first == 0 and n > 0 and not env.genesis_ok(vm):
        first_bad = 0
    if first_bad is None:
        for i in range(first + 1, n):
            if not env.link(vm, i):
                first_bad = i
                break
    if first_bad is None:
        if loaded != n:
            return 'VIOLATION: intact header file truncated to %d of %d headers' % (loaded, n)
        return 'ok-intact'
    if loaded > first_bad:
        return 'VIOLATION: header %d whose link is broken is still loaded (loaded %d of %d, checked from %d)' % (
            first_bad, loaded, n, first)
    if loaded < first_bad - 1:
        return 'VIOLATION: dropped more than one header before the first broken link'
    return 'ok-truncated'


class SymEnv:
    def make(self, vm, n, start, cut):
        from symvm.sv import SBytes, Run
        atoms = [Run('hdr%d' % i, 0, 112) for i in range(n)]
        if cut:
            atoms.append(Run('torn', 0, cut))
        self.content = SBytes(atoms) if atoms else b''
        RepairHeaders.checkpoints = {start - 1000: 'unused'}
        return RepairHeaders('HEADERS')

    def link(self, vm, i):
        return vm.named_bool('link%d' % i)

    def genesis_ok(self, vm):
        return vm.named_bool('genesis_ok')


class NativeEnv:
    """Builds a real header file in which header i links to header i-1 exactly when link_i is set in the model."""

    def make(self, vm, n, start, cut):
        import tempfile
        from lbry.crypto.hash import double_sha256
        self.dir = tempfile.mkdtemp(prefix='vhdr-')
        path = self.dir + '/headers'
        prev = b'\x00' * 32
        blob = b''
        first_hash = None
        for i in range(n):
            link = i == 0 or vm.named_bool('link%d' % i)
            field = prev if link else bytes([0xEE]) * 32
            hdr = (1).to_bytes(4, 'little') + field + bytes([i % 251 + 1]) * 32 + bytes([7]) * 32 + (1500000000 + i).to_bytes(4, 'little') \
                + (0x1f00ffff).to_bytes(4, 'little') + i.to_bytes(4, 'little')
            blob += hdr
            prev = double_sha256(hdr)
            if i == 0:
                first_hash = Headers.hash_header(hdr)
        with open(path, 'wb') as f:
            f.write(blob + b'\x55' * cut)
        RepairHeaders.checkpoints = {start - 1000: 'unused'}
        RepairHeaders.genesis_hash = first_hash if (n and vm.named_bool('genesis_ok')) else b'00' * 32
        return RepairHeaders(path)

    def link(self, vm, i):
        return vm.named_bool('link%d' % i)

    def genesis_ok(self, vm):
        return vm.named_bool('genesis_ok')

    def cleanup(self):
        import shutil
        shutil.rmtree(getattr(self, 'dir', '/nonexistent'), ignore_errors=True)


# ------------------------------------------------------------------------------------------------ (iii) connect
GOOD_BITS = 0x1f00ffff          # compact form of Headers.max_target


class HTok:
    """hash_header of an opaque header (space 'old' = stored chain, 'new' = the batch); only equalities matter."""

    def __init__(self, space, i):
        self.space, self.i = space, i

    def decode(self):
        return 'hash(%s %d)' % (self.space, self.i)

    def __symeq__(self, other, vm):
        if isinstance(other, HTok):
            return self.space == other.space and self.i == other.i
        if isinstance(other, PTok):
            return other.__symeq__(self, vm)
        return False


class PTok:
    """prev_block_hash field of an opaque header."""

    def __init__(self, space, i, start):
        self.space, self.i, self.start = space, i, start

    def decode(self):
        return 'prev(%s %d)' % (self.space, self.i)

    def __symeq__(self, other, vm):
        if isinstance(other, HTok):
            if self.space == 'old':
                return other.space == 'old' and other.i == self.i - 1          # the stored chain links
            pred = ('new', self.i - 1) if self.i > 0 else ('old', self.start - 1)
            if (other.space, other.i) == pred:
                return vm.named_bool('link%d' % self.i)
            return False                                                         # ideal hash: no accidental links
        return isinstance(other, PTok) and (other.space, other.i) == (self.space, self.i)


class ConnectHeaders(Headers):
    """Real Headers; the retarget rule (part ii) and the PoW hash are replaced: every header must carry GOOD_BITS and the
    proof of work of batch header j is below the target iff pow_ok_j."""
    checkpoints = {}
    validate_difficulty = True

    def get_next_block_target(self, max_target, previous, current):
        # the retarget rule is computed from the two headers before the one being validated: for the first header of a chunk both
        # come from the store, and must be what is stored NOW (a reorganisation may just have replaced them)
        start = CHUNK_START[0]
        if previous is not None and current is not None and start is not None and current['block_height'] == start - 1:
            now = self.deserialize(start - 2, self._read(start - 2))
            if not same_header(previous, now):
                STALE[0] = True
        return ArithUint256(self.max_target)

    async def validate_chunk(self, height, chunk):
        CHUNK_START[0] = height
        try:
            return await Headers.validate_chunk(self, height, chunk)
        finally:
            CHUNK_START[0] = None

    @classmethod
    def get_proof_of_work(cls, header_hash):
        return ENV[0].proof_of_work(header_hash)


CHUNK_START = [None]
STALE = [False]


def same_header(a, b):
    pa, pb = a['prev_block_hash'], b['prev_block_hash']
    if isinstance(pa, PTok) or isinstance(pb, PTok):
        return isinstance(pa, PTok) and isinstance(pb, PTok) and (pa.space, pa.i) == (pb.space, pb.i)
    return a == b


def connect_batch(vm, s, d, m, chunk_size, split):
    """A stored chain of s valid headers; a batch of m headers that connects at height s-d, cut into chunks of chunk_size
    by the code and delivered in one call or two; the first invalid header (and why) is the solver's choice."""
    env = ENV[0]
    start = s - d
    first_bad = vm.pick('first_invalid', m + 1)                  # m: the whole batch is valid
    reason = vm.pick('reason', 3) if first_bad < m else 0
    for j in range(m):
        for r, name in enumerate(('link', 'bits_ok', 'pow_ok')):
            flag = vm.named_bool('%s%d' % (name, j))
            if j < first_bad:
                vm.assume(flag)
            elif j == first_bad and r == reason:
                vm.assume(not flag)
    h, batch = env.make_connect(vm, s, start, m, chunk_size)
    olds = [h._read(i) for i in range(s)]
    STALE[0] = False
    if vm.pick('stored_headers_were_read_before', 2):
        for i in range(s):                                       # any earlier reader: the wallet looks headers up all the time
            vm.await_(h.get(i))
    calls = [(start, 0, m)] if split is None else [(start, 0, split), (start + split, split, m)]
    added = 0
    for at, a, b in calls:
        data = b''
        for j in range(a, b):
            data = data + batch[j]
        try:
            got = vm.await_(h.connect(at, data))
        except Exception as e:
            return 'VIOLATION: connect raised %s' % type(e).__name__
        added = added + got
        if got != b - a:
            break                                                # a client stops after a batch that was not fully accepted
    for j in range(m):
        stored = start + j < len(h) and h._read(start + j) == batch[j]
        if first_bad < m and j >= first_bad and stored:
            return 'VIOLATION: batch header %d is stored although header %d of the batch is invalid' % (j, first_bad)
        if first_bad == m and not stored:
            return 'VIOLATION: a fully valid batch that extends the chain is not stored whole'
    if first_bad == m and added != m:
        return 'VIOLATION: connect reports %d added headers for a valid batch of %d' % (added, m)
    for i in range(start):
        if h._read(i) != olds[i]:
            return 'VIOLATION: a stored header below the connection point changed'
    if len(h) < s:
        return 'VIOLATION: the chain became shorter'
    if STALE[0]:
        return 'VIOLATION: a header was validated against a predecessor that is no longer the stored one (stale after a reorganisation)'
    return 'ok-stored' if first_bad == m else 'ok-refused'


def checkpoint_chunk(vm):
    """fetch_chunk: a downloaded 1000-header chunk is written iff its hash is the built-in checkpoint for that height."""
    env = ENV[0]
    checkpointed = vm.new_bool('height_has_checkpoint')
    extra = vm.pick('extra_headers_appended_to_the_reply', 3)      # a server may answer with more than the 1000 headers asked for
    h, chunk = env.make_checkpoint(vm, checkpointed, extra)
    height = 1000 + vm.new_int('offset', 0, 999)
    before = h._read(1000, 1000)
    if extra:
        try:
            vm.await_(h.fetch_chunk(height))
        except Exception:
            pass
        # whatever the first 1000 headers hash to, the reply as a whole is not the checkpointed chunk: nothing of it may be stored
        if len(h) != 2000 or h._read(1000, 1000) != before:
            return 'VIOLATION: headers from an over-long chunk reply were stored although the reply does not hash to the checkpoint'
        return 'ok-refused'
    try:
        vm.await_(h.fetch_chunk(height))
        raised = False
    except Exception:
        raised = True
    written = h._read(1000, 1000) == chunk
    matches = vm.named_bool('chunk_matches_checkpoint')
    if written and not (checkpointed and matches):
        return 'VIOLATION: a chunk that does not hash to the built-in checkpoint was stored'
    if checkpointed and matches and (raised or not written):
        return 'VIOLATION: the chunk matching the checkpoint was not stored'
    if checkpointed and not matches and not raised:
        return 'VIOLATION: a checkpoint mismatch was not reported'
    if not written and h._read(1000, 1000) != before:
        return 'VIOLATION: a refused chunk changed the stored headers'
    return 'ok-stored' if written else 'ok-refused'


class OverlongHashTok:
    """The hash of a reply that carries more than the 1000 headers of the chunk: no checkpoint equals it."""

    def decode(self):
        return self

    def __symeq__(self, other, vm):
        return other is self


class ChunkHashTok:
    def decode(self):
        return self

    def __symeq__(self, other, vm):
        if isinstance(other, str):
            return vm.named_bool('chunk_matches_checkpoint')
        return other is self


class SymConnectEnv:
    def make_connect(self, vm, s, start, m, chunk_size):
        from io import BytesIO
        from symvm.sv import SBytes, Run
        self.start = start
        ConnectHeaders.chunk_size = chunk_size
        h = ConnectHeaders(':memory:')
        h.io = BytesIO(SBytes([Run('old', 0, 112 * s)]))
        h._size = s
        return h, [SBytes([Run('new%d' % j, 0, 112)]) for j in range(m)]

    def proof_of_work(self, tok):
        vm = VMREF[0]
        if tok.space == 'old':
            return ArithUint256(0)
        return ArithUint256(vm.ite(vm.named_bool('pow_ok%d' % tok.i), 0, 2 ** 255))

    def make_checkpoint(self, vm, checkpointed, extra=0):
        from io import BytesIO
        from symvm.sv import SBytes, Run
        h = ConnectHeaders(':memory:')
        h.io = BytesIO(SBytes([Run('old', 0, 112 * 2000)]))
        h._size = 2000
        h.checkpoints = {1000: 'the-built-in-checkpoint'} if checkpointed else {0: 'another-height'}
        chunk = SBytes([Run('chunk', 0, 112 * 1000)])
        reply = chunk if not extra else SBytes([Run('chunk', 0, 112 * 1000), Run('extra', 0, 112 * extra)])
        h.chunk_getter = ChunkGetter({'base64': reply})
        return h, chunk


class ChunkGetter:
    def __init__(self, reply):
        self.reply = reply

    async def __call__(self, start):
        return self.reply


class NativeConnectEnv:
    """Real bytes: header j links / carries GOOD_BITS / has enough work exactly when the model's booleans say so."""

    def raw(self, prev, bits, salt):
        return (1).to_bytes(4, 'little') + prev + bytes([salt % 251 + 1]) * 32 + bytes([9]) * 32 + \
            (1500000000 + salt).to_bytes(4, 'little') + bits.to_bytes(4, 'little') + salt.to_bytes(4, 'little')

    def make_connect(self, vm, s, start, m, chunk_size):
        from io import BytesIO
        from lbry.crypto.hash import double_sha256
        ConnectHeaders.chunk_size = chunk_size
        self.pow = {}
        prev = b'\x00' * 32
        blob = b''
        hashes = []
        for i in range(s):
            hdr = self.raw(prev, GOOD_BITS, i)
            blob += hdr
            prev = double_sha256(hdr)
            hashes.append(prev)
            self.pow[Headers.hash_header(hdr)] = True
        batch = []
        prev = hashes[start - 1] if start > 0 else b'\x00' * 32
        for j in range(m):
            field = prev if vm.named_bool('link%d' % j) else bytes([0xEE]) * 32
            hdr = self.raw(field, GOOD_BITS if vm.named_bool('bits_ok%d' % j) else GOOD_BITS - 1, 5000 + j)
            batch.append(hdr)
            prev = double_sha256(hdr)
            self.pow[Headers.hash_header(hdr)] = bool(vm.named_bool('pow_ok%d' % j))
        h = ConnectHeaders(':memory:')
        h.io = BytesIO(blob)
        h._size = s
        return h, batch

    def proof_of_work(self, header_hash):
        return ArithUint256(0 if self.pow.get(header_hash, True) else 2 ** 255)

    def make_checkpoint(self, vm, checkpointed, extra=0):
        import base64
        import zlib
        from io import BytesIO
        prev = b'\x00' * 32
        old = b''.join(self.raw(prev, GOOD_BITS, i) for i in range(2000))
        chunk = b''.join(self.raw(prev, GOOD_BITS, 7000 + i) for i in range(1000))
        tail = b''.join(self.raw(prev, GOOD_BITS, 9000 + i) for i in range(extra))
        h = ConnectHeaders(':memory:')
        h.io = BytesIO(old)
        h._size = 2000
        good = Headers.hash_header(chunk).decode()
        h.checkpoints = {1000: good if vm.named_bool('chunk_matches_checkpoint') else 'ff' * 32} if checkpointed else {0: 'ab' * 32}
        co = zlib.compressobj(wbits=-15)
        h.chunk_getter = ChunkGetter({'base64': base64.b64encode(co.compress(chunk + tail) + co.flush()).decode()})
        return h, chunk

    def cleanup(self):
        return None


VMREF = [None]


def sym_setup_connect(vm, job):
    import asyncio
    import base64
    import zlib
    from symvm.sv import SBytes, Run, Unsupported
    env = SymConnectEnv()
    ENV[0] = env
    VMREF[0] = vm

    def ident(b):
        a = vm.norm_atoms(list(b.a)) if isinstance(b, SBytes) else None
        if a and len(a) == 1 and isinstance(a[0], Run):
            r = a[0]
            if r.rid == 'chunk' and r.off == 0:
                return ('chunk', 0)
            off, ln = conc(r.off), conc(r.length)
            if r.rid == 'old' and off is not None and off % 112 == 0 and ln == 112:
                return ('old', off // 112)
            if r.rid.startswith('new') and r.off == 0:
                return ('new', int(r.rid[3:]))
        raise Unsupported('header model: hash/deserialize of something that is not one whole header: %r' % (b,))

    def conc(x):
        from symvm import tz
        if isinstance(x, int):
            return x
        x = tz.simplify(x)
        return x.as_long() if tz.is_int_value(x) else None

    def hash_model(vm_, a, k):
        atoms = vm.norm_atoms(list(a[0].a)) if isinstance(a[0], SBytes) else None
        if atoms and len(atoms) == 2 and isinstance(atoms[0], Run) and atoms[0].rid == 'chunk' and isinstance(atoms[1], Run) \
                and atoms[1].rid == 'extra':
            return OverlongHashTok()                              # ideal hash: equals no checkpoint
        space, i = ident(a[0])
        return ChunkHashTok() if space == 'chunk' else HTok(space, i)

    def deserialize_model(vm_, a, k):
        space, i = ident(a[1])
        bits = GOOD_BITS if space == 'old' else vm_.ite(vm_.named_bool('bits_ok%d' % i), GOOD_BITS, GOOD_BITS - 1)
        return {'prev_block_hash': PTok(space, i, env.start), 'block_height': a[0], 'version': 1, 'timestamp': 0, 'bits': bits,
                'nonce': 0, 'merkle_root': 'm', 'claim_trie_root': 'c'}
    vm.models[id(Headers.hash_header)] = hash_model
    vm.models[id(Headers.deserialize)] = deserialize_model
    vm.models[id(base64.b64decode)] = lambda vm_, a, k: a[0]
    vm.models[id(zlib.decompress)] = lambda vm_, a, k: a[0]


def sym_setup(vm, job):
    import asyncio
    import builtins
    import os
    if job.get('family') in ('connect', 'checkpoint'):
        return sym_setup_connect(vm, job)
    if job.get('family') != 'reopen':
        return
    env = SymEnv()
    ENV[0] = env

    def idx_of(b):
        from symvm.sv import SBytes, Run
        a = vm.norm_atoms(list(b.a)) if isinstance(b, SBytes) else None
        if not a or len(a) != 1 or not isinstance(a[0], Run) or not a[0].rid.startswith('hdr') or a[0].off != 0:
            from symvm.sv import Unsupported
            raise Unsupported('header model: hash/deserialize of something that is not one whole stored header: %r' % (b,))
        return int(a[0].rid[3:])
    vm.models[id(Headers.hash_header)] = lambda vm_, a, k: HashTok(idx_of(a[0]))
    vm.models[id(Headers.deserialize)] = lambda vm_, a, k: {'prev_block_hash': PrevTok(idx_of(a[1])), 'block_height': a[0],
                                                            'version': 1, 'timestamp': 0, 'bits': 0, 'nonce': 0}
    vm.models[id(asyncio.get_event_loop)] = lambda vm_, a, k: LoopModel()
    vm.models[id(os.path.exists)] = lambda vm_, a, k: True
    vm.models[id(builtins.open)] = lambda vm_, a, k: FileModel(env.content)


class _NativeCtx:
    def __init__(self):
        self.env = NativeEnv()

    def __enter__(self):
        self.saved = (ENV[0], RepairHeaders.checkpoints, RepairHeaders.genesis_hash)
        ENV[0] = self.env
        import asyncio
        self.loop = asyncio.new_event_loop()
        asyncio.set_event_loop(self.loop)

    def __exit__(self, *a):
        self.env.cleanup()
        self.loop.close()
        ENV[0], RepairHeaders.checkpoints, RepairHeaders.genesis_hash = self.saved     # the symbolic run continues


class _NativeConnectCtx:
    def __enter__(self):
        self.saved = (ENV[0], ConnectHeaders.chunk_size)
        ENV[0] = NativeConnectEnv()

    def __exit__(self, *a):
        ENV[0], ConnectHeaders.chunk_size = self.saved


def native_setup(nvm, job):
    if job.get('family') in ('connect', 'checkpoint'):
        import asyncio
        ctx = _NativeConnectCtx()
        nvm.await_ = lambda aw: asyncio.new_event_loop().run_until_complete(aw)
        return ctx
    if job.get('family') != 'reopen':
        return None
    ctx = _NativeCtx()
    # open() awaits run_in_executor: drive the real coroutine on a real loop
    nvm.await_ = lambda aw: ctx.loop.run_until_complete(aw) if hasattr(aw, '__await__') and not hasattr(aw, '__vm_await__') else aw.v
    return ctx


# ------------------------------------------------------------------------------------------------ runner interface
def jobs(tier):
    out = []
    for lo, hi in ((1, 64), (65, 128), (129, 192), (193, 256)):
        out.append(dict(name=f'compact-of-value-{lo}-{hi}', family='compact', fn='compact_of_value', args=(lo, hi), loop_bound=300,
                        max_depth=40, cost=500, bounds=dict(value=f'every value with bit length {lo}..{hi}'), must_reach=('ok',)))
    out.append(dict(name='value-of-compact', family='compact', fn='value_of_compact', args=(0, 34), loop_bound=300, max_depth=40,
                    cost=100, bounds=dict(compact='size byte 0..34, every 24-bit mantissa (sign bit included)'), must_reach=('ok',)))
    # thorough: every size byte except 02, 03, 06, 07, where z3 leaves 11-19 paths per size undecided within 60 s per query
    # (targets below 2^56; the chain's targets have size bytes 0x1a-0x1f)
    sizes = range(0x1a, 0x21) if tier == 'quick' else [x for x in range(1, 0x21) if x not in ()]
    for size in sizes:
        out.append(dict(name=f'retarget-size-{size:02x}', family='retarget', fn='retarget', args=(size,), loop_bound=300, max_depth=40,
                        cost=3000, query_timeout_ms=60000, incremental_timeout_ms=100, cvc5_fallback=size in (2, 3, 6, 7),
                        bounds=dict(bits=f'size byte {size:#x}, every normalised mantissa with target <= max_target',
                                    timestamps='every pair of 32-bit values')))
    out.append(dict(name='retarget-edges', family='retarget', fn='retarget_edges', args=(), loop_bound=300, max_depth=40, cost=300,
                    query_timeout_ms=60000, bounds=dict(previous='None'), must_reach=('ok',)))
    ns = [1, 2, 5, 37, 38, 40, 41, 76] if tier == 'quick' else [1, 2, 3, 4, 5, 36, 37, 38, 39, 40, 41, 42, 73, 76, 77, 112, 120]
    for n in ns:
        for start, cut in ((0, 0), (3, 0), (3, 57)):
            if start >= n and not cut:
                continue
            out.append(dict(name=f'reopen-{n}headers-from{start}' + (f'-torn{cut}' if cut else ''), family='reopen', fn='reopen',
                            args=(n, start, cut), loop_bound=400, max_depth=60, cost=10 * n,
                            bounds=dict(stored_headers=n, checked_above=0 if cut else start, torn_bytes=cut,
                                        links='one symbolic boolean per header')))
    shapes = [(3, 0, 3, 10 ** 16, None), (3, 0, 4, 2, None), (4, 1, 3, 2, None), (3, 0, 4, 10 ** 16, 2), (5, 2, 4, 3, 1), (5, 2, 4, 10 ** 16, 3),
              (5, 2, 5, 3, None)] \
        if tier == 'quick' else \
        [(s, d, m, cs, sp) for s in (3, 5) for d in (0, 1, 2) for m in (3, 5) for cs in (10 ** 16, 2, 3) for sp in (None, 1, 2)]
    for s, d, m, cs, sp in shapes:
        out.append(dict(name=f'connect-{s}stored-at{s - d}-{m}new-chunk{cs if cs < 100 else "max"}' + (f'-split{sp}' if sp else ''),
                        family='connect', fn='connect_batch', args=(s, d, m, cs, sp), loop_bound=400, max_depth=60, cost=50 * m,
                        bounds=dict(stored_headers=s, connects_at=s - d, batch_headers=m, chunk_size=cs, calls=2 if sp else 1,
                                    first_invalid='any header or none; reason: link / bits / proof of work'),
                        must_reach=('ok-stored', 'ok-refused')))
    out.append(dict(name='checkpoint-chunk', family='checkpoint', fn='checkpoint_chunk', args=(), loop_bound=400, max_depth=60, cost=20,
                    bounds=dict(chunk='1000 opaque headers', height='1000..1999', checkpoint='present or absent, matching or not'),
                    must_reach=('ok-stored', 'ok-refused')))
    return out


def finding_key(job, verdict, inputs, named):
    import re
    verdict = re.sub(r'batch header \d+ is stored although header \d+ of the batch', 'a batch header is stored although an earlier or the same header', verdict)
    verdict = re.sub(r'header \d+ whose link is broken is still loaded \(.*\)', 'header with a broken link is still loaded', verdict)
    return f'{job.get("family")}|{verdict}'


def _const(frm, to):
    def mutate(node):
        import ast
        for n in ast.walk(node):
            if isinstance(n, ast.Constant) and n.value == frm and not isinstance(n.value, bool):
                n.value = to
                return True
        return False
    return mutate


def _repair_tip(node):
    """Canary: re-introduce the skipped tip (range(..., self.height + 1, ...) -> range(..., self.height, ...))."""
    import ast
    for n in ast.walk(node):
        if isinstance(n, ast.For) and isinstance(n.iter, ast.Call) and getattr(n.iter.func, 'id', '') == 'range' \
                and isinstance(n.iter.args[1], ast.BinOp):
            n.iter.args[1] = n.iter.args[1].left
            return True
    return False


def _real_height_in_exception(node):
    """Canary: validate_chunk reports the failing header's own height; connect's slice then keeps the wrong end of the chunk."""
    import ast
    for n in ast.walk(node):
        if isinstance(n, ast.Call) and isinstance(n.func, ast.Attribute) and n.func.attr == 'validate_header':
            n.args[0] = ast.parse("current_header['block_height']").body[0].value
            return True
    return False


def _no_bail(node):
    """Canary: connect keeps going after an invalid chunk."""
    import ast
    for n in ast.walk(node):
        if isinstance(n, ast.If) and isinstance(n.test, ast.Name) and n.test.id == 'bail':
            n.body = [ast.Pass()]
            return True
    return False


def _no_pow_check(node):
    import ast
    for n in ast.walk(node):
        if isinstance(n, ast.Compare) and isinstance(n.left, ast.Name) and n.left.id == 'proof_of_work':
            n.ops[0] = ast.Lt()
            n.comparators[0] = ast.Constant(0)
            return True
    return False


def _checkpoint_any(node):
    import ast
    for n in ast.walk(node):
        if isinstance(n, ast.Compare) and isinstance(n.ops[0], ast.Eq) and isinstance(n.comparators[0], ast.Name) \
                and n.comparators[0].id == 'chunk_hash':
            n.ops[0] = ast.NotEq()
            return True
    return False


CANARIES = [
    dict(name='invalid-header-height-reported', target='lbry.wallet.header:Headers.validate_chunk', mutate=_real_height_in_exception,
         job=dict(family='connect', fn='connect_batch', args=(3, 0, 4, 10 ** 16, None), loop_bound=400, max_depth=60)),
    dict(name='connect-continues-after-invalid-chunk', target='lbry.wallet.header:Headers.connect', mutate=_no_bail,
         job=dict(family='connect', fn='connect_batch', args=(3, 0, 4, 2, None), loop_bound=400, max_depth=60)),
    dict(name='proof-of-work-not-checked', target='lbry.wallet.header:Headers.validate_header', mutate=_no_pow_check,
         job=dict(family='connect', fn='connect_batch', args=(3, 0, 3, 10 ** 16, None), loop_bound=400, max_depth=60)),
    dict(name='checkpoint-mismatch-accepted', target='lbry.wallet.header:Headers.fetch_chunk', mutate=_checkpoint_any,
         job=dict(family='checkpoint', fn='checkpoint_chunk', args=(), loop_bound=400, max_depth=60)),
    dict(name='compact-sign-bit-test', target='lbry.wallet.util:ArithUint256._calculate_compact', mutate=_const(0x00800000, 0x00400000),
         job=dict(family='compact', fn='compact_of_value', args=(1, 64), loop_bound=300, max_depth=40)),
    dict(name='retarget-max-timespan', target='lbry.wallet.header:Headers.get_next_block_target', mutate=_const(2, 4),
         job=dict(family='retarget', fn='retarget', args=(0x1d,), loop_bound=300, max_depth=40, query_timeout_ms=60000,
                  incremental_timeout_ms=100)),
    dict(name='repair-skips-tip', target='lbry.wallet.header:Headers.repair', mutate=_repair_tip,
         job=dict(family='reopen', fn='reopen', args=(40, 3, 0), loop_bound=400, max_depth=60)),
]
