"""C20 - LBC amounts convert to and from integer dewies exactly.

Interpreted from /repo: wallet/util.satoshis_to_coins, coins_to_satoshis, wallet/dewies.dewies_to_lbc, lbc_to_dewies.
Float division and '{:.8f}' formatting (if the code uses them) are modelled exactly (IEEE-754 round-to-nearest-even by
binade case split in linear integer arithmetic, DESIGN.md 3.5); the regular expression is taken from the module's
source at run time and interpreted by the symbolic matcher."""
from lbry.wallet.dewies import dewies_to_lbc, lbc_to_dewies

LEVEL_TEXT = ('Bounded model checking of the real formatter/parser: the amount n is one symbolic integer per range job and '
              'the ranges tile |n| <= 2.1e17 completely, so every amount is covered by some path (the solver proves the '
              'digits of the produced string denote exactly n/10^8); parser inputs are all ASCII strings up to the bound '
              'plus digit strings of every length combination around the 10.8 grammar limits.')
LEVEL_NOTE = ('Trusted: z3, the interpreter, its exact float model and symbolic regex matcher (each path witness is replayed '
              'on the real functions, real floats and real `re`).  Outside: non-ASCII decimal digits accepted by \\d and '
              'int(); arbitrary strings longer than the bound that are not digit.digit shaped.')
ASSUMPTIONS = [
    'parser alphabet for fully arbitrary strings is ASCII (code points 0..127)',
    'no stubs: arithmetic, formatting and the regular expression are all modelled exactly and validated by native replay',
]
OUTSIDE = ['Unicode decimal digits (accepted by both \\d and int() with the right value)',
           'arbitrary non-digit strings longer than the bound']

MAX = 21 * 10 ** 16


def ref_decimal(s):
    """(sign, integer value of the digits, number of fractional digits) or None if s is not [-]digits.digits."""
    neg = False
    i = 0
    if len(s) > 0 and s[0] == '-':
        neg = True
        i = 1
    val = 0
    nw = 0
    while i < len(s) and '0' <= s[i] <= '9':
        val = val * 10 + (ord(s[i]) - 48)
        nw += 1
        i += 1
    if nw == 0 or i >= len(s) or s[i] != '.':
        return None
    i += 1
    nf = 0
    while i < len(s) and '0' <= s[i] <= '9':
        val = val * 10 + (ord(s[i]) - 48)
        nf += 1
        i += 1
    if nf == 0 or i != len(s):
        return None
    return neg, val, nw, nf


def format_exact(vm, lo, hi):
    n = vm.new_int('n', lo, hi)
    s = dewies_to_lbc(n)
    if not isinstance(s, str):
        return 'VIOLATION: formatter did not return a string'
    d = ref_decimal(s)
    if d is None:
        return 'VIOLATION: formatted amount is not a plain decimal'
    neg, val, nw, nf = d
    if nf > 8:
        return 'VIOLATION: more than eight fractional digits'
    mag = val * 10 ** (8 - nf)
    if (-mag if neg else mag) != n:
        return 'VIOLATION: formatted string is not the exact value of n / 10^8'
    if nf > 1 and s[len(s) - 1] == '0':
        return 'VIOLATION: formatted string keeps trailing zeros'
    if nw > 1 and s[1 if neg else 0] == '0':
        return 'VIOLATION: formatted string has leading zeros'
    if n < 0:
        return 'ok-negative'
    try:
        back = lbc_to_dewies(s)
    except ValueError:
        return 'VIOLATION: formatted amount is rejected by the parser'
    if back != n:
        return 'VIOLATION: parsing the formatted amount gives another integer'
    return 'ok'


def ref_accepts(s):
    d = ref_decimal(s)
    if d is None:
        return None
    neg, val, nw, nf = d
    if neg or nw > 10 or nf > 8:
        return None
    return val * 10 ** (8 - nf)


def parse_string(vm, n):
    """Every ASCII string of n characters."""
    s = vm.new_str('s', n, 0, 127)
    want = ref_accepts(s)
    try:
        got = lbc_to_dewies(s)
    except ValueError:
        if want is not None:
            return 'VIOLATION: plain decimal rejected'
        return 'ok-rejected'
    if want is None:
        return 'VIOLATION: accepted a string that is not a plain decimal of at most 10+8 digits'
    if got != want:
        return 'VIOLATION: parsed value is not exact'
    return 'ok-accepted'


def parse_digits(vm, max_w, max_f, tail):
    """digits '.' digits with every length combination around the limits; optional one-character tail."""
    nw = vm.pick('nw', max_w + 1)
    nf = vm.pick('nf', max_f + 1)
    s = vm.new_str('w', nw, 48, 57) + '.' + vm.new_str('f', nf, 48, 57)
    if tail:
        s = s + vm.new_str('t', 1, 0, 127)
    want = ref_accepts(s)
    try:
        got = lbc_to_dewies(s)
    except ValueError:
        if want is not None:
            return 'VIOLATION: plain decimal rejected'
        return 'ok-rejected'
    if want is None:
        return 'VIOLATION: accepted a string that is not a plain decimal of at most 10+8 digits'
    if got != want:
        return 'VIOLATION: parsed value is not exact'
    return 'ok-accepted'


def not_a_string(vm):
    n = vm.new_int('n', -10, 10 ** 12)
    try:
        lbc_to_dewies(n)
    except ValueError:
        return 'ok-rejected'
    return 'VIOLATION: a non-string amount was accepted'


def ranges():
    """Tiles [-MAX, MAX]: one job per decade (and per half-decade above 10^15, where binades are dense)."""
    out = [(0, 9)]
    lo = 10
    while lo <= MAX:
        hi = min(lo * 10 - 1, MAX)
        if lo >= 10 ** 15:
            step = lo
            a = lo
            while a <= hi:
                out.append((a, min(a + step - 1, hi)))
                a += step
        else:
            out.append((lo, hi))
        lo *= 10
    return out


def jobs(tier):
    out = []
    for lo, hi in ranges():
        out.append(dict(name=f'format-{lo}-{hi}', family='format', fn='format_exact', args=(lo, hi), loop_bound=60,
                        max_depth=30, cost=100 if lo < 10 ** 15 else 1000, query_timeout_ms=30000,
                        bounds=dict(n=f'[{lo}, {hi}]'), must_reach=('ok',)))
        out.append(dict(name=f'format-neg-{lo}-{hi}', family='format', fn='format_exact', args=(-hi, -max(lo, 1)),
                        loop_bound=60, max_depth=30, cost=100 if lo < 10 ** 15 else 1000, query_timeout_ms=30000,
                        bounds=dict(n=f'[{-hi}, {-max(lo, 1)}]'), must_reach=('ok-negative',)))
    nmax = 6 if tier == 'quick' else 8
    for n in range(0, nmax + 1):
        out.append(dict(name=f'parse-ascii-{n}', family='parse', fn='parse_string', args=(n,), loop_bound=60, max_depth=30,
                        cost=5 ** n, bounds=dict(string_length=n, alphabet='ASCII 0..127')))
    out.append(dict(name='parse-digits', family='parse', fn='parse_digits', args=(12, 10, False), loop_bound=60, max_depth=30,
                    cost=2000, bounds=dict(whole_digits='0..12', fractional_digits='0..10', digits='symbolic'),
                    must_reach=('ok-accepted', 'ok-rejected')))
    out.append(dict(name='parse-digits-tail', family='parse', fn='parse_digits', args=(11, 9, True), loop_bound=60,
                    max_depth=30, cost=4000,
                    bounds=dict(whole_digits='0..11', fractional_digits='0..9', tail='one arbitrary ASCII character'),
                    must_reach=('ok-accepted', 'ok-rejected')))
    out.append(dict(name='parse-non-string', family='parse', fn='not_a_string', args=(), loop_bound=60, max_depth=30, cost=1,
                    bounds=dict(value='int')))
    return out


def finding_key(job, verdict, inputs, named):
    return f'{job.get("family")}|{verdict}'


def _replace_const(match, new):
    """AST mutator: the first constant for which match(value) holds becomes new(value)."""
    import ast

    def mutate(node):
        for n in ast.walk(node):
            if isinstance(n, ast.Constant) and match(n.value):
                n.value = new(n.value)
                return True
        return False
    return mutate


CANARIES = [
    dict(name='regex-9-fractional-digits', target='lbry.wallet.util:coins_to_satoshis',
         mutate=_replace_const(lambda v: isinstance(v, str) and '{1,8}' in v, lambda v: v.replace('{1,8}', '{1,9}')),
         job=dict(family='parse', fn='parse_digits', args=(12, 10, False), loop_bound=60, max_depth=30)),
    dict(name='ljust-7', target='lbry.wallet.util:coins_to_satoshis',
         mutate=_replace_const(lambda v: v == 8 and not isinstance(v, bool), lambda v: 7),
         job=dict(family='parse', fn='parse_digits', args=(3, 9, False), loop_bound=60, max_depth=30)),
    dict(name='format-float-division', target='lbry.wallet.util:satoshis_to_coins',
         mutate=lambda node: _float_again(node),
         job=dict(family='format', fn='format_exact', args=(6 * 10 ** 15, 7 * 10 ** 15), loop_bound=60, max_depth=30,
                  query_timeout_ms=30000)),
]


def _float_again(node):
    """Canary: force the float path of satoshis_to_coins (isinstance(satoshis, int) -> False)."""
    import ast
    for n in ast.walk(node):
        if isinstance(n, ast.If) and isinstance(n.test, ast.Call) and getattr(n.test.func, 'id', '') == 'isinstance':
            n.test = ast.Constant(False)
            return True
    return False
