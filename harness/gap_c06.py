"""C06, address gap: HierarchicalDeterministic.ensure_address_gap / _generate_keys / get_max_gap over an in-memory address table.

The manager object is a stand-in that borrows the real methods; `_query_addresses` and `db.add_keys` work on a list of records
(what the SQL would return, ordered as requested); child public keys are stand-ins that remember their index."""
from lbry.wallet.account import HierarchicalDeterministic


class KeyStub:
    def __init__(self, n):
        self.n = n
        self.address = 'address-%d' % n


class ChainKey:
    def child(self, index):
        return KeyStub(index)


class Lock:
    def __init__(self):
        self.held = False

    def locked(self):
        return self.held

    async def __aenter__(self):
        self.held = True

    async def __aexit__(self, *a):
        self.held = False


class StubDB:
    def __init__(self, records):
        self.records = records

    async def add_keys(self, account, chain, keys):
        for key in keys:
            self.records.append({'pubkey': key, 'used_times': 0, 'address': key.address})


class StubLedger:
    def __init__(self, records):
        self.db = StubDB(records)
        self.announced = []

    async def announce_addresses(self, manager, addresses):
        self.announced.extend(addresses)


class StubAccount:
    def __init__(self, records):
        self.ledger = StubLedger(records)


class Manager:
    """Stand-in for HierarchicalDeterministic: the gap logic is the real code."""
    ensure_address_gap = HierarchicalDeterministic.ensure_address_gap
    _generate_keys = HierarchicalDeterministic._generate_keys
    get_max_gap = HierarchicalDeterministic.get_max_gap

    def __init__(self, records, gap):
        self.records = records
        self.gap = gap
        self.account = StubAccount(records)
        self.chain_number = 0
        self.public_key = ChainKey()
        self.address_generator_lock = Lock()

    async def _query_addresses(self, limit=None, order_by='n asc', **constraints):
        rows = sorted(self.records, key=lambda r: r['pubkey'].n)
        if order_by == 'n desc':
            rows.reverse()
        elif order_by != 'n asc':
            raise NotImplementedError(order_by)
        return rows[:limit] if limit is not None else rows


def address_gap(vm, n_existing, max_gap):
    """Any usage pattern of the existing addresses 0..n-1 and any gap setting: afterwards at least `gap` unused addresses follow
    the last used one, the new keys continue the numbering without holes or repeats, and a second call adds nothing."""
    gap = vm.pick('gap', max_gap) + 1
    records = []
    for i in range(n_existing):
        key = KeyStub(i)
        records.append({'pubkey': key, 'used_times': vm.pick('used_times', 3), 'address': key.address})
    m = Manager(records, gap)
    try:
        new = vm.await_(m.ensure_address_gap())
    except Exception as e:
        return 'VIOLATION: ensure_address_gap raised %s' % type(e).__name__
    numbers = sorted(r['pubkey'].n for r in records)
    if numbers != list(range(len(records))):
        return 'VIOLATION: address numbers are not consecutive from 0 (a hole or a repeat)'
    trailing = 0
    for r in sorted(records, key=lambda r: -r['pubkey'].n):
        if r['used_times'] != 0:
            break
        trailing += 1
    if trailing < gap:
        return 'VIOLATION: fewer unused addresses than the gap follow the last used address'
    if trailing > gap and len(records) > n_existing:
        return 'VIOLATION: more addresses were generated than the gap needs'
    if new != ['address-%d' % i for i in range(n_existing, len(records))]:
        return 'VIOLATION: the addresses returned are not the newly generated ones in order'
    if m.account.ledger.announced != new:
        return 'VIOLATION: the new addresses were not announced to the ledger'
    if m.address_generator_lock.locked():
        return 'VIOLATION: the address generator lock is still held'
    if vm.await_(m.ensure_address_gap()) != [] or len(records) != len(numbers):
        return 'VIOLATION: a second call generates addresses again'
    return 'ok-generated' if new else 'ok-nothing-needed'


def jobs(tier):
    out = []
    for n, g in (((0, 3), (2, 3), (4, 3)) if tier == 'quick' else ((0, 6), (1, 4), (2, 4), (3, 4), (4, 4), (6, 3))):
        out.append(dict(name=f'address-gap-{n}existing-gap1to{g}', family='gap', fn='address_gap', args=(n, g), loop_bound=200, max_depth=60,
                        cost=3 ** n * g, bounds=dict(existing_addresses=n, gap=f'1..{g}', used_times='0..2 per address, symbolic'),
                        must_reach=('ok-generated',)))
    return out
