"""C11 - the DHT routing table stays a well-formed Kademlia tree; closest-K is exact.

Interpreted from /repo: TreeRoutingTable.{__init__,add_peer,remove_peer,_kbucket_index,_should_split,_split_bucket,
_join_buckets,find_close_peers,get_peer,get_peers}, KBucket.*, Distance.* - with the module constants HASH_BITS / K set
to small values *before* the modules are (re)imported (the code reads them only through `constants`)."""
import asyncio
import importlib

LEVEL_TEXT = ('Bounded model checking of the real routing-table code over operation histories: own id, contact ids '
              '(bit-vectors), addresses from a small pool (so that address clashes occur), the operation sequence '
              '(add / re-add / remove), every probe outcome and liveness answer are symbolic; the tree invariants are '
              'solver-checked after every operation and find_close_peers is compared with a reference sort for a '
              'symbolic key.  A thorough-tier inductive step starts from an arbitrary well-formed table.')
LEVEL_NOTE = ('Trusted: z3, the interpreter (every path replayed natively on the real classes with the same small constants), '
              'the stub peer manager / loop.  The id space is scaled down (HASH_BITS 8, K 1..3): the code is parametric in '
              'the constants; the full 384-bit space with K=8 and longer histories are outside the bound.')
ASSUMPTIONS = [
    'constants.HASH_BITS/HASH_LENGTH/K are set to the job\'s small values before lbry.dht.protocol.{distance,routing_table} '
    'and lbry.dht.peer are reloaded',
    'peer manager stub: contact_triple_is_good and get_last_replied return arbitrary (symbolic) answers; loop.time() = 500',
    'utils.get_colliding_prefix_bits (feeds a metrics label only) is the real function on concrete ids and returns 0 symbolically; '
    'prometheus metrics are no-op sinks',
]
OUTSIDE = ['K = 8 with nine or more contacts per bucket', 'histories longer than the bound', 'the 384-bit id space for K >= 3',
           'bootstrap-node mode (unbounded bucket capacity)']

ENV = {}


def configure(bits, k):
    if ENV.get('configured') == (bits, k):
        return                      # already in place in this process (keeps an in-memory canary mutant alive)
    ENV['configured'] = (bits, k)
    from lbry.dht import constants
    constants.HASH_LENGTH = bits // 8
    constants.HASH_BITS = bits
    constants.K = k
    import prometheus_client
    import lbry.dht.peer as p
    import lbry.dht.protocol.routing_table as rt
    for collector in list(prometheus_client.REGISTRY._collector_to_names):
        prometheus_client.REGISTRY.unregister(collector)       # the reload below re-creates the module's gauges
    importlib.reload(rt)        # KBucket.__init__'s default capacity is bound to constants.K at definition time
    p.make_kademlia_peer.cache_clear()
    ENV['TreeRoutingTable'] = rt.TreeRoutingTable
    ENV['KBucket'] = rt.KBucket
    ENV['make_kademlia_peer'] = p.make_kademlia_peer
    ENV['constants'] = constants
    ENV['RemoteException'] = rt.RemoteException


class StubPeerManager:
    """regime 'any': every answer symbolic; 'good': every contact good and recently heard from (a full bucket refuses
    without probing); 'dead': nobody known good, nobody ever replied (the head is probed, the probe outcome is symbolic)."""

    def __init__(self, vm, regime='any'):
        self.vm = vm
        self.regime = regime

    def contact_triple_is_good(self, node_id, address, udp_port):
        if self.regime == 'good':
            return True
        if self.regime == 'dead':
            return None
        c = self.vm.new_int('good', 0, 2)
        if c == 0:
            return None
        if c == 1:
            return True
        return False

    def peer_is_good(self, peer):
        return self.contact_triple_is_good(peer.node_id, peer.address, peer.udp_port)

    def get_last_replied(self, address, udp_port):
        if self.regime == 'good':
            return 490
        if self.regime == 'dead':
            return None
        if self.vm.new_bool('replied_known'):
            return self.vm.new_int('last_replied', 0, 1000)
        return None


class StubLoop:
    def time(self):
        return 500


def invariant(vm, table, own_int, hash_bits, k):
    """Every fact as one (symbolic) boolean with its message; a single conjunction decides them all at once."""
    buckets = table.buckets
    facts = []
    if not buckets:
        return 'no bucket left'
    facts.append((buckets[0].range_min == 0, 'first bucket does not start at distance 0'))
    facts.append((buckets[-1].range_max == 2 ** hash_bits, 'last bucket does not end at 2^bits'))
    for i in range(len(buckets) - 1):
        facts.append((buckets[i].range_max == buckets[i + 1].range_min, 'bucket ranges do not abut (gap or overlap in the id space)'))
    ids = []
    addrs = []
    for b in buckets:
        facts.append((b.range_min < b.range_max, 'empty or inverted bucket range'))
        facts.append((len(b.peers) <= k, 'bucket over capacity'))
        for p in b.peers:
            d = int.from_bytes(p.node_id, 'big') ^ own_int
            facts.append((vm.all_of([b.range_min <= d, d < b.range_max]), 'contact outside the range of its bucket'))
            for other in ids:
                facts.append((other != p.node_id, 'duplicate node id in the table'))
            ids.append(p.node_id)
            a = (p.address, p.udp_port)
            facts.append((a not in addrs, 'two contacts with the same address'))
            addrs.append(a)
    if vm.all_of([f for f, _ in facts]):
        return None
    for f, msg in facts:
        if not f:
            return msg
    return 'invariant broken'


def in_table(vm, table, node_id):
    return vm.any_of([p.node_id == node_id for p in table.get_peers()])


def lookup_ok(vm, table, own, key, count, sender, k):
    """find_close_peers(key, count, sender) is exactly the `count or K` contacts closest to key by XOR distance, self
    and sender excluded, in ascending order - stated as one conjunction (no sorting in the oracle)."""
    got = table.find_close_peers(key, count, sender)
    kint = int.from_bytes(key, 'big')
    eligible = []
    for p in table.get_peers():
        ok = p.node_id != own
        if sender is not None:
            ok = vm.all_of([ok, p.node_id != sender])
        eligible.append((p, ok, int.from_bytes(p.node_id, 'big') ^ kint))
    n_eligible = 0
    for _, ok, _ in eligible:
        n_eligible = n_eligible + vm.ite(ok, 1, 0)
    want_len = count or k
    facts = [len(got) == vm.ite(n_eligible < want_len, n_eligible, want_len)]
    dist = {}
    for p, ok, d in eligible:
        dist[id(p)] = d
        inside = False
        for g in got:
            if g is p:
                inside = True
        if inside:
            facts.append(ok)                                     # nothing excluded is returned
        elif got:
            last = int.from_bytes(got[-1].node_id, 'big') ^ kint
            facts.append(vm.implies(ok, vm.all_of([d >= last, len(got) == want_len])))    # nothing closer was left out
        else:
            facts.append(vm.not_(ok))
    for a, b in zip(got, got[1:]):
        facts.append(dist[id(a)] <= dist[id(b)])                 # ascending
    seen = []
    for g in got:
        for s in seen:
            facts.append(s is not g)
        seen.append(g)
    return vm.all_of(facts)


def history(vm, n_ops, hash_bits, k, pool_size, coarse, regime='any', part=(0, 1)):
    TreeRoutingTable, make_kademlia_peer = ENV['TreeRoutingTable'], ENV['make_kademlia_peer']
    nbytes = hash_bits // 8
    own = vm.new_bytes('own', nbytes, True)
    own_int = int.from_bytes(own, 'big')
    if coarse:
        vm.assume(own_int & (coarse - 1) == 0)     # ids on a coarse grid: a smaller id space embedded in the 8-bit one
    if part[1] > 1:
        # this job explores the slice of the input space in which the own id falls into residue class part[0]
        vm.assume((own_int >> (coarse.bit_length() - 1 if coarse else 0)) & (part[1] - 1) == part[0])
    pm = StubPeerManager(vm, regime)
    table = TreeRoutingTable(StubLoop(), pm, own)
    pool = ['1.2.3.%d' % (4 + i) for i in range(pool_size)]
    known = []

    answers = []                 # (contact, does it still answer pings?) - a property of the contact, not of the single probe

    async def probe(peer):
        for contact, alive in answers:
            if contact is peer:
                if alive:
                    return True
                raise asyncio.TimeoutError()
        raise asyncio.TimeoutError()

    for step in range(n_ops):
        op = vm.new_int('op', 0, 1)
        if op == 0 or not known:
            nid = vm.new_bytes('nid', nbytes, True)
            vm.assume(nid != own)
            if coarse:
                vm.assume(int.from_bytes(nid, 'big') & (coarse - 1) == 0)
            addr = pool[vm.pick('addr', len(pool))]
            peer = make_kademlia_peer(nid, addr, 4444)
            present = list(table.get_peers())
            answers.append((peer, vm.new_bool('answers_pings')))
            try:
                added = vm.await_(table.add_peer(peer, probe))
            except Exception as e:
                return 'VIOLATION step %d: add_peer raised %s' % (step + 1, type(e).__name__)
            known.append(peer)
            now = table.get_peers()
            for old in present:
                if old is peer or old.address == addr:
                    continue
                gone = True
                for q in now:
                    if q is old:
                        gone = False
                if gone:
                    alive = False
                    for contact, a in answers:
                        if contact is old:
                            alive = a
                            break            # (the lru-cached make_kademlia_peer hands out one object for equal triples: first entry counts, as in probe)
                    if vm.all_of([alive, old.node_id != nid]):
                        return 'VIOLATION step %d: a contact that still answers pings was displaced by a newcomer at a different address' % (step + 1)
            if added and not in_table(vm, table, nid):
                return 'VIOLATION step %d: add_peer reported success but the contact is not in the table' % (step + 1)
        else:
            victim = known[vm.pick('victim', len(known))]
            try:
                table.remove_peer(victim)
            except Exception as e:
                return 'VIOLATION step %d: remove_peer raised %s' % (step + 1, type(e).__name__)
            if vm.any_of([p is victim for p in table.get_peers()]):
                return 'VIOLATION step %d: removed contact still in the table' % (step + 1)
        bad = invariant(vm, table, own_int, hash_bits, k)
        if bad is not None:
            return 'VIOLATION step %d: %s' % (step + 1, bad)
    return 'ok'


def lookup(vm, n_adds, hash_bits, k, plain=False):
    """After n adds: find_close_peers equals the reference for a symbolic key, count and sender."""
    TreeRoutingTable, make_kademlia_peer = ENV['TreeRoutingTable'], ENV['make_kademlia_peer']
    nbytes = hash_bits // 8
    own = vm.new_bytes('own', nbytes, True)
    pm = StubPeerManager(vm, 'good')
    table = TreeRoutingTable(StubLoop(), pm, own)

    async def probe(peer):
        return True

    peers = []
    for i in range(n_adds):
        nid = vm.new_bytes('nid', nbytes, True)
        vm.assume(nid != own)
        peer = make_kademlia_peer(nid, '1.2.3.%d' % (4 + i), 4444)
        try:
            vm.await_(table.add_peer(peer, probe))
        except Exception as e:
            return 'ok-skip (add_peer raised %s: reported by the history jobs)' % type(e).__name__
        peers.append(peer)
    key = vm.new_bytes('key', nbytes, True)
    count = 0 if plain else vm.new_int('count', 0, n_adds + 1)
    cnt = None if count == 0 else vm.choose_int(count, 1, n_adds + 1)
    sender = None
    if peers and not plain and vm.new_bool('has_sender'):
        sender = peers[vm.pick('sender', len(peers))].node_id
    try:
        if not lookup_ok(vm, table, own, key, cnt, sender, k):
            return 'VIOLATION: find_close_peers differs from the K closest contacts by XOR distance'
    except Exception as e:
        return 'VIOLATION: find_close_peers raised %s' % type(e).__name__
    return 'ok'


def inductive(vm, hash_bits, k, n_buckets):
    """One step from an arbitrary well-formed table: B buckets with symbolic boundaries, 0..k contacts each."""
    TreeRoutingTable, KBucket, make_kademlia_peer = ENV['TreeRoutingTable'], ENV['KBucket'], ENV['make_kademlia_peer']
    nbytes = hash_bits // 8
    own = vm.new_bytes('own', nbytes, True)
    own_int = int.from_bytes(own, 'big')
    pm = StubPeerManager(vm)
    table = TreeRoutingTable(StubLoop(), pm, own)
    top = 2 ** hash_bits
    bounds = [0]
    for i in range(n_buckets - 1):
        b = vm.new_int('boundary', 1, top - 1)
        vm.assume(b > bounds[-1])
        bounds.append(b)
    bounds.append(top)
    buckets = []
    known = []
    n_addr = 0
    for i in range(n_buckets):
        bucket = KBucket(pm, bounds[i], bounds[i + 1], own)
        n = vm.pick('fill', k + 1)
        if n == 0 and n_buckets > 1:
            vm.assume(False)                   # no public operation leaves an empty bucket in a multi-bucket table
        for j in range(n):
            dist = vm.new_int('dist', 0, top - 1)
            vm.assume(dist >= bounds[i])
            vm.assume(dist < bounds[i + 1])
            vm.assume(dist != 0)
            nid = (dist ^ own_int).to_bytes(nbytes, 'big')
            for other in known:
                vm.assume(other.node_id != nid)
            peer = make_kademlia_peer(nid, '1.2.3.%d' % (4 + n_addr), 4444)
            n_addr += 1
            bucket.peers.append(peer)
            known.append(peer)
        buckets.append(bucket)
    table.buckets = buckets
    if invariant(vm, table, own_int, hash_bits, k) is not None:
        return 'VIOLATION: harness built a table that violates the invariant'

    async def probe(peer):
        if vm.new_bool('probe_fails'):
            raise asyncio.TimeoutError()
        return True

    op = vm.new_int('op', 0, 1)
    if op == 0 or not known:
        nid = vm.new_bytes('nid', nbytes, True)
        vm.assume(nid != own)
        fresh_addr = vm.new_bool('fresh_address')
        addr = '1.2.3.%d' % (4 + n_addr) if fresh_addr or not known else known[vm.pick('clash', len(known))].address
        peer = make_kademlia_peer(nid, addr, 4444)
        try:
            vm.await_(table.add_peer(peer, probe))
        except Exception as e:
            return 'VIOLATION: add_peer raised %s from a well-formed table' % type(e).__name__
    else:
        victim = known[vm.pick('victim', len(known))]
        try:
            table.remove_peer(victim)
        except Exception as e:
            return 'VIOLATION: remove_peer raised %s from a well-formed table' % type(e).__name__
    bad = invariant(vm, table, own_int, hash_bits, k)
    if bad is not None:
        return 'VIOLATION: one operation on a well-formed table breaks the invariant: %s' % bad
    return 'ok'


# ------------------------------------------------------------------------------------------------ runner interface
def sym_setup(vm, job):
    bits, k = job['table']
    configure(bits, k)
    vm.bv_width = bits
    from lbry import utils
    vm.models[id(utils.get_colliding_prefix_bits)] = lambda vm_, a, kw: 0


class _Cfg:
    def __init__(self, job):
        self.job = job

    def __enter__(self):
        configure(*self.job['table'])

    def __exit__(self, *a):
        pass


def native_setup(nvm, job):
    return _Cfg(job)


def jobs(tier):
    out = []

    def hist(n_ops, bits, k, pool, coarse, cost, regime='any', parts=1):
        for part in range(parts):
            out.append(dict(name=f'history-{n_ops}ops-K{k}-bits{bits}' + (f'-grid{coarse}' if coarse else '') + f'-pool{pool}-{regime}'
                            + (f'-part{part}of{parts}' if parts > 1 else ''),
                            family='history', fn='history', args=(n_ops, bits, k, pool, coarse, regime, (part, parts)),
                            table=(bits, k), loop_bound=300, max_depth=80, cost=cost,
                            bounds=dict(operations=n_ops, HASH_BITS=bits, K=k, address_pool=pool, id_grid=coarse or 1,
                                        probes='symbolic', own_id_slice=f'{part}/{parts}',
                                        liveness={'any': 'symbolic', 'good': 'all contacts good and recent',
                                                  'dead': 'no contact ever replied'}[regime])))
    if tier == 'quick':
        hist(2, 8, 1, 2, 0, 2000, 'any')
        hist(2, 8, 2, 2, 0, 500)
        hist(3, 8, 1, 3, 32, 20000, 'dead')
        hist(3, 8, 2, 3, 32, 20000, 'dead')
    else:
        hist(2, 8, 1, 2, 0, 2000, 'any')
        hist(2, 8, 2, 2, 0, 500)
        hist(3, 8, 2, 3, 32, 50000, 'any')
        for regime in ('good', 'dead'):
            hist(3, 8, 1, 3, 32, 20000, regime)
            hist(3, 8, 1, 3, 16, 20000, regime)
            hist(3, 8, 2, 3, 32, 20000, regime)
            hist(3, 8, 2, 3, 0, 50000, regime)
            hist(4, 8, 2, 3, 32, 50000, regime)
            hist(3, 384, 2, 3, 0, 20000, regime)
    for n, bits, k, plain in ([(2, 8, 2, False), (3, 8, 2, True)] if tier == 'quick' else
                              [(2, 8, 2, False), (3, 8, 2, False), (3, 8, 3, False), (4, 8, 2, True), (3, 384, 2, True)]):
        out.append(dict(name=f'lookup-{n}adds-K{k}-bits{bits}' + ('-plain' if plain else ''), family='lookup', fn='lookup',
                        args=(n, bits, k, plain), table=(bits, k), loop_bound=300, max_depth=80, cost=300 * 4 ** n,
                        bounds=dict(adds=n, HASH_BITS=bits, K=k, key='symbolic',
                                    count='default (K)' if plain else 'symbolic', sender='none' if plain else 'symbolic'),
                        must_reach=('ok',)))
    if tier == 'thorough':
        for bits, k, nb in ((8, 1, 2), (8, 1, 3), (8, 2, 2), (8, 2, 3)):
            out.append(dict(name=f'inductive-K{k}-{nb}buckets', family='inductive', fn='inductive', args=(bits, k, nb),
                            table=(bits, k), loop_bound=300, max_depth=80, cost=30000,
                            bounds=dict(pre_state=f'{nb} buckets with symbolic boundaries, 0..{k} contacts each',
                                        step='one add_peer or remove_peer with arbitrary arguments')))
    return out


def finding_key(job, verdict, inputs, named):
    import re
    return f'{job.get("family")}|{re.sub(r"step [0-9]+: ", "", verdict)}'


def _split_at_wrong_point(node):
    import ast
    for n in ast.walk(node):
        if isinstance(n, ast.Assign) and isinstance(n.targets[0], ast.Name) and n.targets[0].id == 'split_point':
            n.value = ast.BinOp(left=n.value, op=ast.Add(), right=ast.Constant(1))
            return True
    return False


def _capacity_plus_one(node):
    import ast
    for n in ast.walk(node):
        if isinstance(n, ast.Compare) and isinstance(n.ops[0], ast.Lt) and isinstance(n.comparators[0], ast.Attribute) \
                and n.comparators[0].attr == 'capacity':
            n.ops[0] = ast.LtE()
            return True
    return False


def _sort_by_own_id(node):
    import ast
    for n in ast.walk(node):
        if isinstance(n, ast.Assign) and isinstance(n.targets[0], ast.Name) and n.targets[0].id == 'distance':
            n.value.args[0] = ast.Attribute(value=ast.Name(id='self', ctx=ast.Load()), attr='_parent_node_id', ctx=ast.Load())
            return True
    return False


CANARIES = [
    dict(name='split-point-off-by-one', target='lbry.dht.protocol.routing_table:TreeRoutingTable._split_bucket',
         mutate=_split_at_wrong_point,
         job=dict(family='history', fn='history', args=(2, 8, 1, 2, 0, 'dead'), table=(8, 1), loop_bound=300, max_depth=80)),
    dict(name='bucket-over-capacity', target='lbry.dht.protocol.routing_table:KBucket.add_peer', mutate=_capacity_plus_one,
         job=dict(family='history', fn='history', args=(3, 8, 2, 3, 32, 'dead'), table=(8, 2), loop_bound=300, max_depth=80)),
    dict(name='lookup-sorted-by-own-id', target='lbry.dht.protocol.routing_table:TreeRoutingTable.find_close_peers',
         mutate=_sort_by_own_id,
         job=dict(family='lookup', fn='lookup', args=(2, 8, 2), table=(8, 2), loop_bound=300, max_depth=80)),
]
