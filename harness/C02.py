"""C02 - stream publish / descriptor: chunking, load-time validation of descriptors, suggested file names.

Interpreted from /repo: stream/descriptor.py file_reader, sanitize_file_name (with the module's own regular expression),
StreamDescriptor.{_from_stream_descriptor_blob, __init__, get_stream_hash, calculate_stream_hash, get_blob_hashsum},
BlobInfo.{__init__, as_dict}.  SHA-384 is an ideal function of the bytes fed to it."""
import os

from lbry.blob import MAX_BLOB_SIZE
from lbry.error import InvalidStreamDescriptorError
from lbry.stream.descriptor import StreamDescriptor, file_reader, sanitize_file_name

from harness import publish_c02
from harness.publish_c02 import publish      # noqa: F401  (job function)

LEVEL_TEXT = ('Bounded model checking of three mechanisms of the real stream code: (a) the file reader cuts a file of symbolic '
              'size (content an opaque run) into consecutive non-empty chunks of at most 2 MiB - 1 bytes whose concatenation is '
              'the file; (c) the loader of a descriptor blob, fed a symbolic descriptor (blob lengths, numbers, presence of '
              'hashes and the stream hash all symbolic), returns a descriptor only if the terminator, numbering and stream-hash '
              'commitment (recomputed with an independent reference layout) are consistent; (d) the suggested file name of every '
              'name of up to N arbitrary code points contains no path separator, NUL or C0 control character; (b) the real create_stream on a '
              'file of each boundary size (1 byte, AES block boundaries, exactly one blob of plaintext, one byte more, two blobs, one byte more; '
              'content an opaque run) followed by decryption of the stored blobs in descriptor order with the descriptor\'s key and IVs gives '
              'back the file; every blob is at most 2 MiB, stored under the hash of its ciphertext, numbered consecutively, IVs never repeat, '
              'the terminator is empty, stream hash and sd hash are the commitments over exactly the descriptor content, and the stored '
              'descriptor blob says what the descriptor object says.')
LEVEL_NOTE = ('Trusted: z3, the interpreter, its regex matcher and splitext model (paths replayed natively with the real `re`, '
              '`os.path` and SHA-384), the reference transcript layout.  Assumed: SHA-384 ideal; in (b) AES-CBC an ideal cipher and PKCS7 a '
              'model in the symbolic run - the native replay of every (b) path runs the real cryptography AES/PKCS7 and real SHA-384 on a '
              'real byte string of that size.  Outside: file sizes other than the listed boundary sizes in (b), blob files on disk (an '
              'in-memory blob class stands in for BlobFile inside lbry.stream.descriptor), '
              'single-field tampering of a serialised descriptor (only the loader\'s recomputation is checked).')
ASSUMPTIONS = ['(b) ideal cipher: decrypt(key, iv, encrypt(key, iv, p)) = p, any other key / IV / ciphertext gives unrelated bytes that do not unpad; '
               'ideal hash with concrete names (structurally equal inputs get equal names); sizes, key and IVs concrete',
               'get_lbry_hash_obj() = ideal hash of the update() transcript', 'os.stat / read_bytes stubbed: the file is an opaque '
               'run of symbolic length', 'json.loads stubbed in (c): it returns the symbolic descriptor dict built by the harness',
               '"control character" = C0 range U+0000..U+001F (DEL / C1 are not demanded)']
OUTSIDE = ['AES and PKCS7 themselves (ideal in the symbolic run, real in the native replay)', 'BlobFile disk I/O', 'reserved DOS device names', 'names longer than the bound']

ENV = [None]


def chunking(vm, max_chunks):
    """file_reader: consecutive, non-empty chunks <= MAX_BLOB_SIZE - 1 whose concatenation is the file."""
    limit = MAX_BLOB_SIZE - 1
    size = vm.new_int('file_size', 0, max_chunks * limit)
    content = ENV[0].new_file(vm, size)
    chunks = []
    try:
        for c in vm.collect(file_reader('/virtual/file')):
            chunks.append(c)
    except Exception as e:
        return 'VIOLATION: reading the file raised %s' % type(e).__name__
    total = 0
    rebuilt = b''
    for c in chunks:
        if len(c) == 0:
            return 'VIOLATION: an empty chunk was produced'
        if len(c) > limit:
            return 'VIOLATION: a chunk is longer than 2 MiB - 1 bytes (its padded ciphertext would exceed 2 MiB)'
        total = total + len(c)
        rebuilt = rebuilt + c
    if total != size:
        return 'VIOLATION: the chunks do not add up to the file size'
    if not ENV[0].same(vm, rebuilt, content):
        return 'VIOLATION: the concatenation of the chunks is not the file'
    want = (size + limit - 1) // limit
    if len(chunks) != want:
        return 'VIOLATION: more chunks than needed'
    return 'ok-%d-chunks' % len(chunks)


# ------------------------------------------------------------------------------------------------ (c) loader
class StubReader:
    def __init__(self, data):
        self.data = data

    def read(self):
        return self.data


class StubReaderContext:
    def __init__(self, data):
        self.data = data

    def __enter__(self):
        return StubReader(self.data)

    def __exit__(self, *a):
        return False


class StubBlob:
    blob_hash = 'ef' * 48

    def __init__(self):
        self.deleted = 0

    def reader_context(self):
        return StubReaderContext(b'{"stub": "the json stub returns the symbolic descriptor"}')

    def delete(self):
        self.deleted += 1


IVS = ['00' * 16, '01' * 16, '02' * 16, '03' * 16]
HASHES = ['a%d' % i * 48 for i in range(4)]


def ref_stream_hash(vm, name_hex, key, file_hex, blobs):
    """Reference commitment: H(name || key || file || H(concat_i H([hash_i] || str(num_i) || iv_i || str(len_i))))."""
    from lbry.utils import get_lbry_hash_obj
    outer = get_lbry_hash_obj()
    outer.update(name_hex)
    outer.update(key)
    outer.update(file_hex)
    inner = get_lbry_hash_obj()
    for b in blobs:
        h = get_lbry_hash_obj()
        if b['length'] != 0:
            h.update(b['blob_hash'].encode())
        h.update(str(b['blob_num']).encode())
        h.update(b['iv'].encode())
        h.update(str(b['length']).encode())
        inner.update(h.digest())
    outer.update(inner.digest())
    return outer.hexdigest()


def load_descriptor(vm, n_blobs):
    """A descriptor with n_blobs entries (the last one meant as terminator), every committed number symbolic."""
    blobs = []
    for i in range(n_blobs):
        d = {'length': vm.new_int('length', 0, MAX_BLOB_SIZE), 'blob_num': vm.new_int('blob_num', 0, n_blobs + 1), 'iv': IVS[i]}
        if vm.new_bool('has_hash'):
            d['blob_hash'] = HASHES[i]
        blobs.append(d)
    kind = vm.pick('stream_hash_kind', 6)            # the commitment / another 48-byte value / '' / null / 0 / commitment over the renumbered list
    honest = kind == 0
    decoded = {'stream_type': 'lbryfile', 'stream_name': '6e616d65', 'key': '11' * 16, 'suggested_file_name': '6e616d65',
               'blobs': blobs, 'stream_hash': None}
    consistent = (blobs[-1]['length'] == 0 and 'blob_hash' not in blobs[-1])
    for i, b in enumerate(blobs):
        if b['blob_num'] != i:
            consistent = False
        if i < n_blobs - 1 and (b['length'] == 0 or 'blob_hash' not in b):
            consistent = False
    if consistent or all((b['length'] == 0) or ('blob_hash' in b) for b in blobs):
        commitment = ref_stream_hash(vm, b'6e616d65', b'11' * 16, b'6e616d65', blobs)
    else:
        commitment = 'c0' * 48          # a data blob without a hash has no well-defined commitment; any value will do
    if honest:
        decoded['stream_hash'] = commitment
    elif kind == 1:
        other = vm.new_bytes('other_stream_hash', 48).hex()
        vm.assume(other != commitment)
        decoded['stream_hash'] = other
    elif kind == 5:
        # the forger commits to the list as a lenient loader would normalise it: entries numbered by position, terminator emptied
        if not all(('blob_hash' in b) for b in blobs[:-1]):
            return 'ok-skip'
        fixed = [dict(b, blob_num=i) for i, b in enumerate(blobs)]
        fixed[-1] = {'length': 0, 'blob_num': n_blobs - 1, 'iv': blobs[-1]['iv']}
        decoded['stream_hash'] = ref_stream_hash(vm, b'6e616d65', b'11' * 16, b'6e616d65', fixed)
        honest = consistent
    else:
        decoded['stream_hash'] = ('', None, 0)[kind - 2]
    ENV[0].set_json(decoded)
    blob = StubBlob()
    try:
        desc = StreamDescriptor._from_stream_descriptor_blob(None, '/blobs', blob)
    except InvalidStreamDescriptorError as e:
        if consistent and honest:
            return 'VIOLATION: a consistent descriptor is refused (%s)' % e
        return 'ok-refused'
    except Exception as e:
        if consistent and honest:
            return 'VIOLATION: loading a consistent descriptor raised %s' % type(e).__name__
        return 'ok-refused-%s' % type(e).__name__
    if not consistent:
        return 'VIOLATION: a descriptor with an inconsistent terminator / numbering / zero-length blob is accepted'
    if not honest:
        return 'VIOLATION: a descriptor whose stream hash is not the commitment over its content is accepted'
    if len(desc.blobs) != n_blobs or desc.stream_hash != commitment or desc.sd_hash != blob.blob_hash:
        return 'VIOLATION: the loaded descriptor differs from the blob'
    return 'ok-loaded'


def bad_json(vm):
    ENV[0].set_json(None)
    blob = StubBlob()
    try:
        StreamDescriptor._from_stream_descriptor_blob(None, '/blobs', blob)
    except InvalidStreamDescriptorError:
        if blob.deleted != 1:
            return 'VIOLATION: an undecodable descriptor blob is not deleted'
        return 'ok-refused'
    except Exception as e:
        return 'VIOLATION: an undecodable descriptor raised %s' % type(e).__name__
    return 'VIOLATION: an undecodable descriptor is accepted'


# ------------------------------------------------------------------------------------------------ (d) file names
def file_name(vm, n):
    name = vm.new_str('name', n)
    try:
        out = sanitize_file_name(name)
    except Exception as e:
        return 'VIOLATION: sanitize_file_name raised %s' % type(e).__name__
    if len(out) == 0:
        return 'VIOLATION: empty suggested file name'
    for c in out:
        o = ord(c)
        if vm.any_of([o == 47, o == 92, o <= 31]):
            return 'VIOLATION: the suggested file name contains a path separator, NUL or control character'
    return 'ok'


# ------------------------------------------------------------------------------------------------ runner interface
class SymHash:
    def __init__(self):
        self.parts = []


class SymEnv:
    __symvm_native__ = True          # harness plumbing: runs natively, not under the interpreter

    def __init__(self, vm):
        self.vm = vm
        self.content = None
        self.size = None
        self.decoded = None

    def new_file(self, vm, size):
        from symvm.sv import SBytes, Run, SInt
        vm.fresh += 1
        rid = 'file!%d' % vm.fresh
        ln = size.e if isinstance(size, SInt) else size
        vm.inputs.append(('run', 'file', (rid, ln, None)))
        self.size = size
        self.content = SBytes([Run(rid, 0, ln)]) if not (isinstance(ln, int) and ln == 0) else b''
        return self.content

    def same(self, vm, a, b):
        return vm.truth(vm.eq(a, b))

    def set_json(self, decoded):
        self.decoded = decoded


def sym_setup(vm, job):
    if job.get('family') == 'publish':
        return publish_c02.sym_setup(vm, job)
    import asyncio
    import json
    import lbry.stream.descriptor as D
    from lbry import utils
    from symvm.ideal import IdealFn
    from symvm.sv import atoms_of, mk_bytes
    from symvm import models
    env = SymEnv(vm)
    ENV[0] = env

    class StatResult:
        def __init__(self, size):
            self.st_size = size

    class Loop:
        __symvm_native__ = True

        def run_in_executor(self, ex, fn, *a):
            from symvm.vm import Done
            return Done(vm.call(fn, list(a), {}))
    vm.models[id(os.stat)] = lambda vm_, a, k: StatResult(env.size)
    vm.models[id(asyncio.get_event_loop)] = lambda vm_, a, k: Loop()
    vm.models[id(D.read_bytes)] = lambda vm_, a, k: models.sbytes_getitem(vm_, env.content, slice(a[1], vm_.binop(__import__('ast').Add(), a[1], a[2]), None)) \
        if not isinstance(env.content, bytes) else env.content[a[1]:a[1] + a[2]]
    vm.register_helper('collect', lambda it: list(vm.iterate(it)))

    def m_json_loads(vm_, a, k):
        if env.decoded is None:
            raise json.JSONDecodeError('stub: not JSON', 'x', 0)
        return env.decoded
    vm.models[id(json.loads)] = m_json_loads
    sha = IdealFn(vm, 'sha384', 48, injective=True, bv=False)
    vm.method_models[(SymHash, 'update')] = lambda vm_, o, a, k: o.parts.extend(atoms_of(a[0]))
    vm.method_models[(SymHash, 'digest')] = lambda vm_, o, a, k: sha(mk_bytes(list(o.parts)))
    vm.method_models[(SymHash, 'hexdigest')] = lambda vm_, o, a, k: vm_.call(vm_.getattr(sha(mk_bytes(list(o.parts))), 'hex'), [], {})
    for target in (utils.get_lbry_hash_obj, D.get_lbry_hash_obj):
        vm.models[id(target)] = lambda vm_, a, k: SymHash()


class NativeHash:
    """hashlib-like object whose digest is answered from the recorded ideal outputs (falls back to real SHA-384)."""

    def __init__(self, ideal):
        self.ideal = ideal
        self.buf = b''

    def update(self, data):
        self.buf += bytes(data)

    def digest(self):
        return self.ideal(self.buf)

    def hexdigest(self):
        return self.ideal(self.buf).hex()


class NativeEnv:
    def __init__(self, nvm):
        self.nvm = nvm
        self.decoded = None

    def new_file(self, vm, size):
        from symvm.native import run_bytes
        rid, n, fill = vm._next('run', 'file')
        self.content = run_bytes(rid, n)
        return self.content

    def same(self, vm, a, b):
        return bytes(a) == bytes(b)

    def set_json(self, decoded):
        self.decoded = decoded


class _Native:
    def __init__(self, nvm):
        self.nvm = nvm

    def __enter__(self):
        import asyncio
        import json
        import lbry.stream.descriptor as D
        env = NativeEnv(self.nvm)
        self.saved_env = ENV[0]
        ENV[0] = env
        self.saved = (os.stat, D.read_bytes, json.loads, asyncio.get_event_loop)
        import hashlib
        from lbry import utils
        from symvm.ideal import NativeIdeal
        ideal = NativeIdeal(self.nvm, 'sha384', lambda b: hashlib.sha384(b).digest())
        self.saved_hash = (utils.get_lbry_hash_obj, D.get_lbry_hash_obj)
        utils.get_lbry_hash_obj = D.get_lbry_hash_obj = lambda: NativeHash(ideal)

        class StatResult:
            def __init__(self, size):
                self.st_size = size

        class Ready:
            def __init__(self, v):
                self.v = v

            def __await__(self):
                return self.v
                yield

        class Loop:
            def run_in_executor(self, ex, fn, *a):
                return Ready(fn(*a))
        real_stat = os.stat
        os.stat = lambda p, *a, **k: StatResult(len(env.content)) if p == '/virtual/file' else real_stat(p, *a, **k)
        D.read_bytes = lambda path, offset, n: env.content[offset:offset + n]
        real_loads = json.loads

        def loads(s, *a, **k):
            if isinstance(s, str) and s.startswith('{"stub"'):
                if env.decoded is None:
                    raise json.JSONDecodeError('stub: not JSON', 'x', 0)
                return env.decoded
            return real_loads(s, *a, **k)
        json.loads = loads
        asyncio.get_event_loop = lambda: Loop()

        def collect(agen):
            out = []
            it = agen.__aiter__()
            while True:
                try:
                    co = it.__anext__()
                    try:
                        co.send(None)
                    except StopIteration as e:
                        out.append(e.value)
                        continue
                    raise RuntimeError('native async generator suspended')
                except StopAsyncIteration:
                    return out
        self.nvm.collect = collect

    def __exit__(self, *a):
        import asyncio
        import json
        import lbry.stream.descriptor as D
        os.stat, D.read_bytes, json.loads, asyncio.get_event_loop = self.saved
        from lbry import utils
        utils.get_lbry_hash_obj, D.get_lbry_hash_obj = self.saved_hash
        ENV[0] = self.saved_env


def native_setup(nvm, job):
    if job.get('family') == 'publish':
        return publish_c02.Native(nvm)
    return _Native(nvm)


def jobs(tier):
    out = []
    out.append(dict(name='chunking', family='chunking', fn='chunking', args=(3 if tier == 'quick' else 5,), loop_bound=50, max_depth=50,
                    cost=100, bounds=dict(file_size=f'0 .. {3 if tier == "quick" else 5} * (2 MiB - 1), symbolic', content='opaque run'),
                    must_reach=('ok-0-chunks', 'ok-1-chunks', 'ok-2-chunks', 'ok-3-chunks')))
    for n in ((1, 2) if tier == 'quick' else (1, 2, 3)):     # 4 entries: 194 000 paths in 28 min, explorers ran out of memory - not registered
        out.append(dict(name=f'load-descriptor-{n}-blobs', family='load', fn='load_descriptor', args=(n,), loop_bound=100, max_depth=60,
                        cost=100 * 8 ** n, bounds=dict(blob_entries=n, lengths='symbolic', numbers='symbolic', hashes='present or absent',
                                                       stream_hash='the commitment, another 48-byte value, empty string, null, 0, or the commitment over the list renumbered by position'),
                        must_reach=('ok-loaded', 'ok-refused')))
    out.append(dict(name='load-descriptor-bad-json', family='load', fn='bad_json', args=(), loop_bound=100, max_depth=60, cost=5,
                    bounds=dict(json='undecodable'), must_reach=('ok-refused',)))
    for n in (range(0, 4) if tier == 'quick' else range(0, 6)):
        out.append(dict(name=f'file-name-{n}', family='file-name', fn='file_name', args=(n,), loop_bound=100, max_depth=60, cost=40 ** n,
                        bounds=dict(code_points=n, alphabet='every code point 0..0x10FFFF'), must_reach=('ok',)))
    out.extend(publish_c02.jobs(tier))
    return out


def finding_key(job, verdict, inputs, named):
    return f'{job.get("family")}|{verdict}'


def _limit_plus_one(node):
    import ast
    for n in ast.walk(node):
        if isinstance(n, ast.BinOp) and isinstance(n.op, ast.Sub) and isinstance(n.left, ast.Name) and n.left.id == 'MAX_BLOB_SIZE':
            n.right = ast.Constant(0)
            return True
    return False


def _no_numbering_check(node):
    import ast
    for n in ast.walk(node):
        if isinstance(n, ast.If) and isinstance(n.test, ast.Call) and getattr(n.test.func, 'id', '') == 'any' and \
                'blob_num' in ast.unparse(n.test):
            n.test = ast.Constant(False)
            return True
    return False


CANARIES = [
    dict(name='chunk-of-exactly-2MiB', target='lbry.stream.descriptor:file_reader', mutate=_limit_plus_one,
         job=dict(family='chunking', fn='chunking', args=(2,), loop_bound=50, max_depth=50)),
    dict(name='blob-numbering-not-checked', target='lbry.stream.descriptor:StreamDescriptor._from_stream_descriptor_blob',
         mutate=_no_numbering_check, job=dict(family='load', fn='load_descriptor', args=(2,), loop_bound=100, max_depth=60)),
] + publish_c02.CANARIES
