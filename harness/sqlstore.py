"""The daemon's SQLiteStorage over the REAL sqlite3 library: an in-memory database with the real schema, reached through a
synchronous stand-in for AIOSQLite (one connection; db.run(fn) = one SQL transaction).  Every statement the real storage code
issues is executed by sqlite itself - nothing is modelled - which is possible because every value that reaches sqlite on a path is
concrete (the same observation that made C09 checkable).  Used by C18 and C19."""
import sqlite3

from lbry.extras.daemon.storage import SQLiteStorage


class SyncDB:
    def __init__(self):
        self.conn = sqlite3.connect(':memory:', isolation_level=None, check_same_thread=False)
        self.writer_connection = self.conn
        script = SQLiteStorage.CREATE_TABLES_QUERY.replace('pragma journal_mode=WAL;', '')
        self.conn.executescript(script)

    async def executescript(self, script):
        return self.conn.executescript(script)

    async def execute_fetchall(self, sql, parameters=None, read_only=False):
        return self.conn.execute(sql, parameters if parameters is not None else []).fetchall()

    async def execute_fetchone(self, sql, parameters=None, read_only=False):
        return self.conn.execute(sql, parameters if parameters is not None else []).fetchone()

    async def execute(self, sql, parameters=None):
        return self.conn.execute(sql, parameters if parameters is not None else [])

    async def executemany(self, sql, params):
        return self.conn.executemany(sql, list(params)).fetchall()

    async def run(self, fun, *args, **kwargs):
        self.conn.execute('begin')
        try:
            result = fun(self.conn, *args, **kwargs)
        except BaseException:
            self.conn.execute('rollback')
            raise
        self.conn.execute('commit')
        return result

    async def run_with_foreign_keys_disabled(self, fun, *args, **kwargs):
        self.conn.execute('pragma foreign_keys=off')
        try:
            return await self.run(fun, *args, **kwargs)
        finally:
            self.conn.execute('pragma foreign_keys=on')


class Conf:
    pass


def new_storage(loop=None):
    """A real SQLiteStorage object (all its methods are the repository's) whose `db` is the synchronous stand-in."""
    storage = object.__new__(SQLiteStorage)
    storage.conf = Conf()
    storage.content_claim_callbacks = {}
    storage.loop = loop
    storage.time_getter = lambda: 1000.0
    storage.db = SyncDB()
    storage._db_path = ':memory:'
    return storage


class BlobTable:
    """Dictionary view (hash -> status) of the real `blob` table, for the harness' start states and obligations."""

    def __init__(self, storage):
        self.storage = storage
        self.conn = storage.db.conn

    def get(self, h, default=None):
        row = self.conn.execute('select status from blob where blob_hash=?', (h,)).fetchone()
        return row[0] if row is not None else default

    def __contains__(self, h):
        return self.get(h) is not None

    def __setitem__(self, h, status):
        self.conn.execute('insert or replace into blob values (?, ?, ?, ?, ?, ?, ?, ?, ?)', (h, 1000, 0, 0, status, 0, 0, 1, 0))

    def snapshot(self):
        out = {}
        for h, status in self.conn.execute('select blob_hash, status from blob').fetchall():
            out[h] = status
        return out
