"""C15 - script templates: generation and parsing are mutually inverse and unambiguous.

Interpreted from /repo: wallet/script.py (push_data, read_data, token_producer, tokenize, Parser, Template, Script,
InputScript, OutputScript and their classification properties) and the BCDataStream methods they use.  Values are
opaque runs of *symbolic length*, so one exploration covers every data length including all push-data boundaries."""
from lbry.wallet.bcd_data_stream import BCDataStream
from lbry.wallet.script import (push_data, tokenize, Script, InputScript, OutputScript, DataToken, Template,
                                PUSH_SINGLE, PUSH_INTEGER, PUSH_SUBSCRIPT, PUSH_MANY, SMALL_INTEGER)
from lbry.schema.purchase import Purchase

LEVEL_TEXT = ('Bounded model checking of the real script generator/parser: every non-multisig template is generated from '
              'values that are opaque byte runs of symbolic length (all lengths below the bound at once, including the '
              '75/76/255/256/65535/65536 push boundaries) and symbolic lock heights, parsed back by the real parser and '
              'compared; classification is compared against an independent tokenizer/matcher on every byte string up '
              'to the bound and on every 1-byte mutation of each generated script.')
LEVEL_NOTE = ('Trusted: z3, the interpreter and its BytesIO/struct/run models (validated by native replay of every path), the '
              'reference tokenizer and template table written in the harness.  Outside: multi-signature redeem scripts, '
              'decoding of the claim payload, arbitrary scripts longer than the bound.')
ASSUMPTIONS = [
    'hash-like values (pubkey_hash, script_hash, claim_id) are runs of 20 bytes in the quick tier (their protocol size); '
    'names, claims, support data, signatures, public keys and return data have symbolic length; the thorough tier makes '
    'every value symbolic-length',
    'opaque run content is uninterpreted: the property may not depend on the data bytes themselves (true for push '
    'encoding, which only looks at lengths)',
]
OUTSIDE = ['multi-signature redeem scripts (excluded by the property)', 'Claim/Purchase protobuf decoding of payloads',
           'arbitrary byte strings longer than the bound that are not within one byte of a generated script']

HASHLIKE = ('pubkey_hash', 'script_hash', 'claim_id')
OUT = OutputScript
TEMPLATES = {t.name: (OutputScript, t) for t in OutputScript.templates}
TEMPLATES['pubkey'] = (InputScript, InputScript.REDEEM_PUBKEY)
TEMPLATES['pubkey_hash'] = (InputScript, InputScript.REDEEM_PUBKEY_HASH)
TEMPLATES['script_hash+timelock'] = (InputScript, InputScript.REDEEM_SCRIPT_HASH_TIME_LOCK)


def ref_prefix_len(n):
    if n < 76:
        return 1
    if n <= 0xff:
        return 2
    if n <= 0xffff:
        return 3
    return 5


def push_roundtrip(vm, hi):
    data = vm.new_run('data', 0, hi)
    stream = BCDataStream()
    stream.write_many(push_data(data))
    raw = stream.get_bytes()
    n = len(data)
    if len(raw) != n + ref_prefix_len(n):
        return 'VIOLATION: push prefix is not the minimal encoding'
    if n < 76:
        if raw[0] != n:
            return 'VIOLATION: direct push opcode is not the length'
    elif n <= 0xff:
        if raw[0] != 0x4c or raw[1] != n:
            return 'VIOLATION: PUSHDATA1 prefix wrong'
    elif n <= 0xffff:
        if raw[0] != 0x4d or raw[1] + 256 * raw[2] != n:
            return 'VIOLATION: PUSHDATA2 prefix wrong'
    else:
        if raw[0] != 0x4e or raw[1] + 256 * raw[2] + 65536 * raw[3] + 16777216 * raw[4] != n:
            return 'VIOLATION: PUSHDATA4 prefix wrong'
    toks = tokenize(BCDataStream(raw))
    if n == 0:
        if len(toks) != 1 or toks[0].value != 0:
            return 'VIOLATION: empty push is not the single token OP_0'
        return 'ok-empty'
    if len(toks) != 1 or not isinstance(toks[0], DataToken):
        return 'VIOLATION: a push does not tokenize to exactly one data token'
    if toks[0].value != data:
        return 'VIOLATION: pushed data differs after tokenizing'
    return 'ok'


def make_values(vm, template, all_symbolic, hi):
    values = {}
    for op in template.opcodes:
        if isinstance(op, PUSH_SINGLE):
            if op.name in HASHLIKE and not all_symbolic:
                values[op.name] = vm.new_run(op.name, 20, 20)
            else:
                values[op.name] = vm.new_run(op.name, 0, hi)
        elif isinstance(op, PUSH_INTEGER):
            values[op.name] = vm.new_int(op.name, 0, 2 ** 32 - 1)
        elif isinstance(op, PUSH_SUBSCRIPT):
            values[op.name] = Script(template=op.template, values=make_values(vm, op.template, all_symbolic, hi))
    return values


def same_values(template, want, got):
    for op in template.opcodes:
        if isinstance(op, (PUSH_SINGLE, PUSH_INTEGER)):
            if op.name not in got or got[op.name] != want[op.name]:
                return False
        elif isinstance(op, PUSH_SUBSCRIPT):
            if op.name not in got:
                return False
            sub = got[op.name]
            if sub.source != want[op.name].source:
                return False
            if sub.template.name != op.template.name or not same_values(op.template, want[op.name]._values, sub.values):
                return False
    return True


def ref_script_len(template, values):
    """Length of the script if every push uses the minimal encoding."""
    total = 0
    for op in template.opcodes:
        if isinstance(op, PUSH_SINGLE):
            n = len(values[op.name])
            total = total + n + ref_prefix_len(n)
        elif isinstance(op, PUSH_INTEGER):
            total = total + 1 + (values[op.name].bit_length() + 8) // 8
        elif isinstance(op, PUSH_SUBSCRIPT):
            n = ref_script_len(op.template, values[op.name]._values)
            total = total + n + ref_prefix_len(n)
        else:
            total = total + 1
    return total


def template_roundtrip(vm, name, all_symbolic, hi):
    cls, template = TEMPLATES[name]
    values = make_values(vm, template, all_symbolic, hi)
    script = cls(template=template, values=values)
    if not isinstance(script.source, bytes):
        return 'VIOLATION: generated script is not bytes'
    if len(script.source) != ref_script_len(template, values):
        return 'VIOLATION: generated script does not use the minimal push encoding'
    parsed = cls(script.source)
    try:
        got_name = parsed.template.name
    except ValueError:
        return 'VIOLATION: generated script matches no template'
    if got_name != name:
        return 'VIOLATION: generated %s script parses as %s' % (name, got_name)
    if not same_values(template, values, parsed.values):
        return 'VIOLATION: parsed values differ from the generated ones'
    if cls is OutputScript:
        want = classify_name(name)
        got = (parsed.is_claim_name, parsed.is_update_claim, parsed.is_support_claim, parsed.is_support_claim_data,
               parsed.is_pay_pubkey_hash, parsed.is_pay_script_hash, parsed.is_return_data, parsed.is_claim_involved)
        if got != want:
            return 'VIOLATION: classification flags of a generated %s script are wrong' % name
    return 'ok'


def classify_name(name):
    claim = name.startswith('claim_name+')
    update = name.startswith('update_claim+')
    support = name.startswith('support_claim+')
    return (claim, update, support, name.startswith('support_claim+data+'), name.endswith('pay_pubkey_hash'),
            name.endswith('pay_script_hash'), name == 'return_data', claim or update or support)


# ------------------------------------------------------------------------------------------------ classification
D = 'D'
PAY_PKH = [0x76, 0xa9, D, 0x88, 0xac]
PAY_SH = [0xa9, D, 0x87]
REF_TEMPLATES = [
    ('pay_pubkey_full', [D, 0xac]),
    ('pay_pubkey_hash', PAY_PKH),
    ('pay_script_hash', PAY_SH),
    ('pay_script_hash+segwit', [0x00, D]),
    ('return_data', [0x6a, D]),
    ('claim_name+pay_pubkey_hash', [0xb5, D, D, 0x6d, 0x75] + PAY_PKH),
    ('claim_name+pay_script_hash', [0xb5, D, D, 0x6d, 0x75] + PAY_SH),
    ('support_claim+pay_pubkey_hash', [0xb6, D, D, 0x6d, 0x75] + PAY_PKH),
    ('support_claim+pay_script_hash', [0xb6, D, D, 0x6d, 0x75] + PAY_SH),
    ('support_claim+data+pay_pubkey_hash', [0xb6, D, D, D, 0x6d, 0x6d] + PAY_PKH),
    ('support_claim+data+pay_script_hash', [0xb6, D, D, D, 0x6d, 0x6d] + PAY_SH),
    ('update_claim+pay_pubkey_hash', [0xb7, D, D, D, 0x6d, 0x6d] + PAY_PKH),
    ('update_claim+pay_script_hash', [0xb7, D, D, D, 0x6d, 0x6d] + PAY_SH),
]


def ref_tokens(raw):
    """Independent tokenizer (Bitcoin script push rules).  Returns a list of ('op', n) / ('data', first_byte_or_None)
    or None when a push is cut short (the wallet may only answer 'no template' for such a script)."""
    out = []
    i = 0
    n = len(raw)
    while i < n:
        op = raw[i]
        i += 1
        if op == 0:
            out.append(('op', 0))
        elif op <= 0x4e:
            if op < 0x4c:
                ln = op
            else:
                w = 1 if op == 0x4c else (2 if op == 0x4d else 4)
                if i + w > n:
                    return None
                ln = 0
                for j in range(w):
                    ln = ln + raw[i + j] * 256 ** j
                i += w
            if i + ln > n:
                return None
            out.append(('data', raw[i] if ln > 0 else None))
            i += ln
        elif 0x51 <= op <= 0x60:
            out.append(('small', op - 0x50))
        else:
            out.append(('op', op))
    return out


def ref_classify(raw):
    toks = ref_tokens(raw)
    if toks is None:
        return None
    if not toks:
        return 'no_script'
    for name, ops in REF_TEMPLATES:
        if len(ops) != len(toks):
            continue
        ok = True
        for want, tok in zip(ops, toks):
            if want == D:
                if not (tok[0] == 'data' or (tok[0] == 'op' and tok[1] == 0)):
                    ok = False
                    break
            elif not (tok[0] == 'op' and tok[1] == want):
                ok = False
                break
        if ok:
            return name
    return None


VALUE_BEARING = ('pay_pubkey_full', 'pay_pubkey_hash', 'pay_script_hash')


def check_classification(raw, family):
    try:
        toks = ref_tokens(raw)
        want = ref_classify(raw)
    except Exception:
        return 'VIOLATION: harness reference failed'
    s = OutputScript(raw)
    try:
        got = s.template.name
    except Exception as e:
        # the wallet's contract for a script it does not recognise is to raise (ValueError 'No matching templates';
        # malformed pushes surface as struct.error): acceptable exactly when the reference recognises nothing either
        if want is not None and want != 'no_script':
            return 'VIOLATION: %s script is not recognised (%s)' % (want, type(e).__name__)
        return 'ok-unclassified'
    if toks is None:
        # a push cut short by the end of the script: Bitcoin treats the script as unparseable; the wallet reads the
        # short data.  Only a classification that carries value or a claim would matter.
        if got.endswith(VALUE_BEARING) or got.startswith(('claim_name+', 'update_claim+', 'support_claim+')):
            return 'VIOLATION: script with a truncated push classified as %s' % got
        return 'ok-truncated-push'
    if got != want:
        if want is None:
            return 'VIOLATION: script classified as %s although its opcodes do not form that template' % got
        return 'VIOLATION: %s script classified as %s' % (want, got)
    if got == 'no_script':
        return 'ok-unclassified'
    flags = (s.is_claim_name, s.is_update_claim, s.is_support_claim, s.is_support_claim_data, s.is_pay_pubkey_hash,
             s.is_pay_script_hash, s.is_return_data, s.is_claim_involved)
    if flags != classify_name(got):
        return 'VIOLATION: classification flags disagree with the matched template'
    return 'ok-' + got


def classify_garbage(vm, n, first):
    raw = vm.new_bytes('s', n)
    if n and first is not None:
        lo, hi = first
        vm.assume(raw[0] >= lo)
        vm.assume(raw[0] <= hi)
    return check_classification(raw, 'garbage')


CONCRETE = {
    'pubkey': b'\x02' + b'\x11' * 32, 'pubkey_hash': b'\x22' * 20, 'script_hash': b'\x33' * 20, 'data': b'Pxyz',
    'claim_name': b'name', 'claim': b'\x01claimbytes', 'claim_id': b'\x44' * 20, 'support': b'sup',
}


def classify_mutant(vm, name):
    cls, template = TEMPLATES[name]
    raw = template.generate({op.name: CONCRETE[op.name] for op in template.opcodes if isinstance(op, PUSH_SINGLE)})
    k = vm.pick('pos', len(raw))
    b = vm.new_int('byte', 0, 255)
    vm.assume(b != raw[k])
    return check_classification(raw[:k] + bytes([b]) + raw[k + 1:], 'mutant')


def purchase_rule(vm, n):
    """Output.is_purchase_data: return_data whose payload starts with the purchase start byte."""
    from lbry.wallet.transaction import Output
    data = vm.new_bytes('d', n)
    out = Output(0, OutputScript.return_data(data))
    out2 = Output(0, OutputScript(out.script.source))
    want = n > 0 and data[0] == Purchase.START_BYTE
    if bool(out2.is_purchase_data) != want:
        return 'VIOLATION: purchase classification of a return_data output is wrong'
    return 'ok-purchase' if want else 'ok-not-purchase'


def jobs(tier):
    out = []
    out.append(dict(name='push-roundtrip', family='push', fn='push_roundtrip', args=(2 ** 32 - 1,), loop_bound=50, max_depth=40,
                    cost=5, bounds=dict(data_length='every length in [0, 2^32)'), must_reach=('ok', 'ok-empty')))
    for name in TEMPLATES:
        out.append(dict(name=f'template-{name}', family='template', fn='template_roundtrip', args=(name, False, 2 ** 32 - 1),
                        loop_bound=60, max_depth=50, cost=200,
                        bounds=dict(template=name, value_lengths='names/claims/data/signatures/keys: every length in [0, 2^32); '
                                    'hashes and claim ids: 20 bytes', heights='[0, 2^32)'), must_reach=('ok',)))
        if tier == 'thorough':
            out.append(dict(name=f'template-all-lengths-{name}', family='template', fn='template_roundtrip',
                            args=(name, True, 2 ** 24), loop_bound=60, max_depth=50, cost=2000,
                            bounds=dict(template=name, value_lengths='every value: every length in [0, 2^24]',
                                        heights='[0, 2^32)'), must_reach=('ok',)))
    nmax = 4 if tier == 'quick' else 6
    for n in range(0, nmax + 1):
        classes = [None] if n < 4 else [(0, 0x4b), (0x4c, 0x4e), (0x4f, 0xb4), (0xb5, 0xb7), (0xb8, 0xff)]
        for c in classes:
            out.append(dict(name=f'classify-{n}' + (f'-{c[0]:02x}' if c else ''), family='classify', fn='classify_garbage',
                            args=(n, c), loop_bound=40, max_depth=50, cost=6 ** n,
                            bounds=dict(script_bytes=n, all_bytes_symbolic=True, first_byte=str(c) if c else 'any')))
    for name in OutputScript.templates:
        out.append(dict(name=f'classify-mutant-{name.name}', family='classify-mutant', fn='classify_mutant', args=(name.name,),
                        loop_bound=80, max_depth=50, cost=300,
                        bounds=dict(script='generated %s script' % name.name, mutated_bytes=1, replacement='arbitrary byte')))
    for n in (0, 1, 2):
        out.append(dict(name=f'purchase-{n}', family='purchase', fn='purchase_rule', args=(n,), loop_bound=40, max_depth=50,
                        cost=5, bounds=dict(return_data_bytes=n)))
    return out


def finding_key(job, verdict, inputs, named):
    return f'{job.get("family")}|{verdict}'


def _lte_to_lt(const):
    def mutate(node):
        import ast
        for n in ast.walk(node):
            if isinstance(n, ast.Compare) and isinstance(n.ops[0], ast.LtE) and isinstance(n.comparators[0], ast.Constant) \
                    and n.comparators[0].value == const:
                n.ops[0] = ast.Lt()
                return True
        return False
    return mutate


def _startswith_to_in(node):
    import ast
    for n in ast.walk(node):
        if isinstance(n, ast.Attribute) and n.attr == 'startswith':
            n.attr = 'endswith'
            return True
    return False


CANARIES = [
    dict(name='pushdata1-boundary', target='lbry.wallet.script:push_data', mutate=_lte_to_lt(0xFF),
         job=dict(family='push', fn='push_roundtrip', args=(2 ** 32 - 1,), loop_bound=50, max_depth=40)),
    dict(name='pushdata2-boundary', target='lbry.wallet.script:push_data', mutate=_lte_to_lt(0xFFFF),
         job=dict(family='template', fn='template_roundtrip', args=('claim_name+pay_pubkey_hash', False, 2 ** 32 - 1),
                  loop_bound=60, max_depth=50)),
    dict(name='is-claim-name-endswith', target='lbry.wallet.script:OutputScript.is_claim_name', mutate=_startswith_to_in,
         job=dict(family='template', fn='template_roundtrip', args=('claim_name+pay_script_hash', False, 70000),
                  loop_bound=60, max_depth=50)),
]
