"""C12 - DHT: announced blobs are findable until expiry; paging returns every announcer (local mechanisms only).

Interpreted from /repo: DictDataStore.{add_peer_to_blob, filter_expired_peers, filter_bad_and_expired_peers,
get_peers_for_blob, removed_expired_peers, has_peers_for_blob}, KademliaRPC.find_value (server side of paging) and
IterativeValueFinder.send_probe (client side of paging) wired directly to each other."""
from collections import defaultdict

from lbry.dht import constants
from lbry.dht.peer import make_kademlia_peer
from lbry.dht.protocol.data_store import DictDataStore
from lbry.dht.protocol.iterative_find import IterativeValueFinder
from lbry.dht.protocol.protocol import KademliaRPC

LEVEL_TEXT = ('Bounded model checking of the two local mechanisms the property rests on: (a) the announcement store under a '
              'symbolic non-decreasing clock - a stored announcer that is not marked bad is returned exactly while its latest '
              'announcement is younger than 24 h, re-announcing refreshes, clean-up never drops a live one; (b) paging - for '
              'every announcer count up to the bound, every requester identity and "blob held locally" flag (solver-chosen), '
              'the pages the real client is led to request from the real server cover every announcer except the requester, '
              'each once, at most K per page; (c) store(blob, token, port) followed by a value lookup: an announcement made with '
              'the token that was handed out (valid for one refresh) and a valid port is stored and returned with the announced '
              'port, any other store is refused and stores nothing; (d) a reply delivered twice leaves the peer\'s rating exactly as a twin peer '
              'manager that never saw the copy rates it, at every later instant of a symbolic clock; (e) an iterative node lookup (real '
              'IterativeNodeFinder on a model event loop) over 2-4 contacts that are each honest, silent, answer garbage, answer an error or '
              'answer unusable contacts, with the outstanding probes completing in every order: it always ends, probes nobody twice, and '
              'yields only contacts that replied, none twice, never the searching node; (f) the same for an iterative value lookup (real '
              'IterativeValueFinder) over 2-3 contacts that have no value, are silent, answer garbage / an error / without a token, hold two '
              'announcers, list an unusable announcer or hold two pages: it ends, asks nobody twice for one page and yields only well-formed '
              'public announcer addresses that were really reported, none twice.')
LEVEL_NOTE = ('Trusted: z3, the interpreter (paths replayed natively), the stub protocol/peer-manager objects, the model event loop of (e) '
              '(call_soon FIFO; one outstanding probe completes at a time, which one is solver-chosen; a probe that raises completes its task '
              'with the exception).  Declined (no bounded encoding within reach): the hit guarantee in a loss-free network of 2..40 real nodes '
              '(whole-network asyncio schedules), RPC timeouts as elapsed time.')
ASSUMPTIONS = ['(e) contacts answer find_node as RemoteKademliaRPC would hand it to the finder: a list of (id, address, port), an exception (timeout, remote '
               'error) or a garbage payload; a reply marks the contact as good before the finder sees the payload', 'loop.time() = symbolic non-decreasing integers', 'peer manager stub: peer_is_good is a symbolic three-valued answer',
               'client and server are wired directly (the datagram codec is C17); find_node returns no contacts; make_token is a constant']
OUTSIDE = ['hit guarantee across a network of nodes', 'lookups over more than 4 contacts', 'virtual time to completion']

DAY = constants.DATA_EXPIRATION
KEY = bytes(range(48))


class Clock:
    def __init__(self):
        self.now = 0

    def time(self):
        return self.now


class PM:
    def __init__(self, vm):
        self.vm = vm
        self.answers = {}
        self.failures = []

    def peer_is_good(self, peer):
        return self.answers.get(peer.tcp_port)

    def report_failure(self, address, port):
        self.failures.append((address, port))


def announcer(i):
    return make_kademlia_peer(bytes([i + 1]) * 48, '8.8.%d.%d' % (i // 200 + 1, i % 200 + 1), udp_port=4444, tcp_port=3000 + i)


def expiry(vm, n_peers, n_events):
    """A history of announcements / re-announcements / clock advances / clean-ups; then a lookup."""
    clock = Clock()
    pm = PM(vm)
    store = DictDataStore(clock, pm)
    peers = [announcer(i) for i in range(n_peers)]
    last = [None] * n_peers
    for e in range(n_events):
        clock.now = clock.now + vm.new_int('dt', 0, 3 * DAY)
        kind = vm.pick('event', 3)
        if kind == 0:
            i = vm.pick('who', n_peers)
            store.add_peer_to_blob(peers[i], KEY)
            last[i] = clock.now
        elif kind == 1:
            store.removed_expired_peers()
        else:
            i = vm.pick('judged', n_peers)
            g = vm.pick('goodness', 3)
            pm.answers[peers[i].tcp_port] = None if g == 0 else (g == 1)
        got = store.get_peers_for_blob(KEY)
        for i in range(n_peers):
            inside = False
            for p in got:
                if p is peers[i]:
                    inside = True
            bad = pm.answers.get(peers[i].tcp_port) is False
            fresh = last[i] is not None and clock.now - last[i] < DAY
            if kind == 1 and bad:
                last[i] = None if True else last[i]      # clean-up forgets peers marked bad (allowed: they are not returned)
                fresh = False
            if inside and not fresh:
                return 'VIOLATION: an announcer is returned although its announcement is 24 h old or older (or was never made)'
            if inside and bad:
                return 'VIOLATION: an announcer marked bad is returned'
            if fresh and not bad and not inside:
                return 'VIOLATION: a live announcement younger than 24 h is not returned'
        seen = []
        for p in got:
            for s in seen:
                if s is p:
                    return 'VIOLATION: an announcer is returned twice'
            seen.append(p)
    return 'ok'


class RespProtocol:
    """The real response/error handlers of KademliaProtocol on an object without transport and loop."""
    from lbry.dht.protocol.protocol import KademliaProtocol as _KP
    handle_response_datagram = _KP.handle_response_datagram
    del _KP

    def __init__(self, pm):
        self.node_id = b'\xaa' * 48
        self.peer_manager = pm
        self.sent_messages = {}
        self.added = []

    def add_peer(self, peer):
        self.added.append(peer)


def duplicated_response(vm):
    """A reply that the network delivers twice (or once more, late): the second copy must not change what the node thinks of the peer.
    Differential oracle: a twin peer manager sees the same history without the extra copy; afterwards, at every later instant, both rate the
    peer alike - and a peer that has just answered is not rated bad."""
    from lbry.dht.peer import PeerManager
    from lbry.dht.serialization.datagram import ResponseDatagram, RESPONSE_TYPE
    from harness.C01 import ModelFuture
    clock = Clock()
    pm, twin = PeerManager(clock), PeerManager(clock)
    proto, proto_twin = RespProtocol(pm), RespProtocol(twin)
    peer = make_kademlia_peer(b'\x11' * 48, '8.8.8.8', udp_port=4444)
    rpc_id = b'r' * 20
    clock.now = 1000 + vm.new_int('t_request', 0, 10 ** 6)
    earlier = vm.pick('earlier_failures', 3)            # the peer may have failed before (0, 1 or 2 recorded failures)
    for k in range(earlier):
        pm.report_failure(peer.address, peer.udp_port)
        twin.report_failure(peer.address, peer.udp_port)
        clock.now = clock.now + vm.new_int('dt_failure', 0, 10 ** 4)
    for p, m in ((proto, pm), (proto_twin, twin)):
        m.report_last_sent(peer.address, peer.udp_port)
        p.sent_messages[rpc_id] = (peer, ModelFuture(), None)
    clock.now = clock.now + vm.new_int('dt_reply', 0, 4)          # the reply arrives within the RPC timeout
    reply = ResponseDatagram(RESPONSE_TYPE, rpc_id, peer.node_id, b'pong')
    for p in (proto, proto_twin):
        try:
            p.handle_response_datagram((peer.address, peer.udp_port), reply)
        except Exception as e:
            return 'VIOLATION: handling an honest reply raised %s' % type(e).__name__
        fut = p.sent_messages.pop(rpc_id)[1]               # send_request forgets the rpc once its future is done
        if not fut.done():
            return 'VIOLATION: an honest reply does not complete the request'
    clock.now = clock.now + vm.new_int('dt_duplicate', 0, 10 ** 4)
    try:
        proto.handle_response_datagram((peer.address, peer.udp_port), reply)        # the network delivers the same datagram again
    except Exception as e:
        return 'VIOLATION: a duplicated reply raised %s' % type(e).__name__
    clock.now = clock.now + vm.new_int('dt_later', 0, 10 ** 4)
    a, b = pm.peer_is_good(peer), twin.peer_is_good(peer)
    if a is not b:
        return 'VIOLATION: a duplicated reply changes how the peer is rated'
    if len(proto.added) > 2 or len(proto.added) < 1:
        return 'VIOLATION: the replying peer is not offered to the routing table (or more than once per copy)'
    return 'ok-good' if a else 'ok-other'


# ------------------------------------------------------------------------------------------------ (e) iterative node lookup under faults
DEBUG_LOOKUP = bool(__import__('os').environ.get('C12_DEBUG'))


class Hang(Exception):
    """An await that nothing will ever complete."""


class ModelQueue:
    def __init__(self, *a, **k):
        self.items = []

    def put_nowait(self, item):
        self.items.append(item)

    def qsize(self):
        return len(self.items)

    def empty(self):
        return not self.items

    def get(self):
        return QueueGet(self)


class QueueGet:
    def __init__(self, q):
        self.q = q

    def outcome(self):
        if not self.q.items:
            raise Hang()
        return self.q.items.pop(0)

    def __vm_await__(self, vm):
        return self.outcome()

    def __await__(self):
        return self

    def __iter__(self):
        return self

    def __next__(self):
        raise StopIteration(self.outcome())


class FinderLoop:
    """call_soon callbacks run FIFO; tasks (probes) complete one at a time in a solver-chosen order."""

    def __init__(self, vm):
        self.vm = vm
        self.ready = []
        self.pending = []

    def call_soon(self, cb, *args):
        self.ready.append((cb, args))

    def create_task(self, coro):
        from harness.C01 import ModelFuture
        fut = ModelFuture()
        self.pending.append((coro, fut))
        return fut

    def time(self):
        return 1000.0

    def step(self):
        """Run one callback, or let one outstanding probe complete; False when there is nothing left to do."""
        if self.ready:
            cb, args = self.ready.pop(0)
            cb(*args)
            return True
        live = [p for p in self.pending if not p[1].done()]
        for coro, fut in self.pending:
            if fut.done() and hasattr(coro, 'close'):
                coro.close()                       # a cancelled probe never runs
        self.pending = live
        if not live:
            return False
        i = self.vm.pick('probe_completes', len(live)) if len(live) > 1 else 0
        coro, fut = live[i]
        self.pending = [p for p in live if p[1] is not fut]
        try:
            result = self.vm.await_(coro)
        except Exception as e:
            if not fut.done():
                fut.set_exception(e)
            return True
        if not fut.done():
            fut.set_result(result)
        return True


class LookupPM:
    def __init__(self):
        self.replied = []

    def peer_is_good(self, peer):
        for node_id in self.replied:
            if node_id == peer.node_id:
                return True
        return None


class LookupRpcPeer:
    def __init__(self, net, peer):
        self.net, self.peer = net, peer

    async def find_node(self, key):
        import asyncio
        from lbry.dht.error import RemoteException
        how = self.net.behaviour[self.peer.node_id]
        self.net.probed.append(self.peer.node_id)
        if how == 1:
            raise asyncio.TimeoutError()                         # silent node: the RPC times out
        if how == 3:
            raise RemoteException('remote error')
        self.net.pm.replied.append(self.peer.node_id)            # a reply arrived (the protocol records it before the finder sees the payload)
        if how == 2:
            return 5                                             # well-formed reply datagram, garbage payload
        if how == 4:
            return [(b'\x07' * 48, '10.0.0.1', 70000), (b'\x08' * 48, 5, 'x')]         # contact triple that is not a public address
        return self.net.triples_known_to(self.peer)


class LookupProtocol:
    external_ip = '9.9.9.9'
    udp_port = 4444

    def __init__(self, net):
        self.net = net
        self.node_id = b'\xaa' * 48
        self.peer_manager = net.pm

    def get_rpc_peer(self, peer):
        return LookupRpcPeer(self.net, peer)


class LookupNet:
    def __init__(self, n):
        self.pm = LookupPM()
        self.peers = [make_kademlia_peer(bytes([0x10 + i]) * 48, '8.8.8.%d' % (i + 1), udp_port=4000 + i) for i in range(n)]
        self.behaviour = {}
        self.probed = []

    def triples_known_to(self, peer):
        out = [(p.node_id, p.address, p.udp_port) for p in self.peers if p is not peer]      # as RemoteKademliaRPC.find_node returns them
        out.append((b'\xaa' * 48, '9.9.9.9', 4444))            # everybody also knows the searching node
        return out


def node_lookup(vm, n):
    """An iterative node lookup over n contacts, each honest / silent / answering garbage / answering an error / answering an unusable
    contact, probes completing in any order: the lookup ends, and yields only contacts that replied, never twice, never the searcher."""
    from lbry.dht.protocol.iterative_find import IterativeNodeFinder
    from harness.C01 import LOOP, VM as C01_VM
    net = LookupNet(n)
    for p in net.peers:
        net.behaviour[p.node_id] = vm.pick('behaviour', 5)
    loop = FinderLoop(vm)
    LOOP[0] = loop
    C01_VM[0] = vm
    known = 1 + vm.pick('initially_known', min(n, 2))
    try:
        finder = IterativeNodeFinder(loop, LookupProtocol(net), b'\x55' * 48, 8, list(net.peers[:known]))
        finder.__aiter__()
    except Exception as e:
        return 'VIOLATION: starting the lookup raised %s' % type(e).__name__
    yielded = []
    finished = False
    for round_no in range(4 * n + 6):
        steps = 0
        while finder.iteration_queue.empty():
            try:
                more = loop.step()
            except Exception as e:
                return 'VIOLATION: the lookup raised %s' % type(e).__name__
            if not more:
                break
            steps += 1
            if steps > 40 * (n + 1):
                return 'VIOLATION: the lookup keeps working without ever producing a result or finishing'
        try:
            batch = vm.await_(finder.__anext__())
        except StopAsyncIteration:
            finished = True
            break
        except Hang:
            return 'VIOLATION: the lookup never finishes (nothing left to run, nothing queued)'
        except Exception as e:
            return 'VIOLATION: the lookup raised %s' % type(e).__name__
        for peer in batch:
            yielded.append(peer)
    if not finished:
        return 'VIOLATION: the lookup does not finish within the bound of rounds'
    if len(net.probed) > len(set(net.probed)):
        return 'VIOLATION: a contact was probed twice'
    seen = []
    for peer in yielded:
        if peer.node_id == b'\xaa' * 48:
            return 'VIOLATION: a node lookup yields the searching node itself'
        if peer.node_id not in net.pm.replied:
            return 'VIOLATION: a node lookup yields a contact that never replied'
        if peer.node_id in seen:
            return 'VIOLATION: a contact is yielded twice'
        seen.append(peer.node_id)
    honest = 0
    for p in net.peers:
        if net.behaviour[p.node_id] == 0:
            honest += 1
    if DEBUG_LOOKUP:
        print('seen', seen, 'probed', net.probed, 'replied', net.pm.replied)
    if honest == n and len(seen) != n:
        return 'VIOLATION: in an all-honest network a replying contact is not yielded'
    return 'ok-all-honest' if honest == n else 'ok'


# ------------------------------------------------------------------------------------------------ (f) iterative value lookup under faults
HOLDER_A = (b'\x31' * 48, '44.1.2.3', 5001)
HOLDER_B = (b'\x32' * 48, '44.1.2.4', 5002)
PAGE_HOLDERS = [(bytes([0x40 + i]) * 48, '45.0.0.%d' % (i + 1), 6000 + i) for i in range(10)]


def _compact(triple):
    from lbry.dht.serialization.datagram import make_compact_address
    return bytes(make_compact_address(triple[0], triple[1], triple[2]))


class ValueRpcPeer:
    def __init__(self, net, peer):
        self.net, self.peer = net, peer

    async def find_value(self, key, page=0):
        import asyncio
        from lbry.dht.error import RemoteException
        how = self.net.behaviour[self.peer.node_id]
        self.net.probed.append((self.peer.node_id, page))
        if how == 1:
            raise asyncio.TimeoutError()
        if how == 3:
            raise RemoteException('remote error')
        self.net.pm.replied.append(self.peer.node_id)
        if how == 2:
            return 5                                                        # garbage payload in a well-formed reply
        contacts = [(t[0], t[1].encode(), t[2]) for t in self.net.triples_known_to(self.peer)]
        if how == 4:
            return {b'contacts': contacts}                                  # no token
        reply = {b'token': b'\x09' * 48, b'contacts': contacts}
        if how == 5:                                                        # holds the value: two announcers
            reply[key] = [_compact(HOLDER_A), _compact(HOLDER_B)]
        elif how == 6:                                                      # hostile: a good announcer next to unusable ones
            bad = (b'\x00\x00\x00\x00\x00\x50' + b'\x33' * 48,             # address 0.0.0.0, port 80
                   b'\x7f\x00\x00\x01\x13\x88' + b'\x34' * 48,             # loopback
                   b'\x2c\x01\x02\x05\x00\x00' + b'\x35' * 48,             # port 0
                   b'\x2c\x01\x02\x06\x13\x88' + b'\x36' * 20)[self.net.hostile_kind]   # truncated node id
            reply[key] = [_compact(HOLDER_A), bad]
        elif how == 7:                                                      # two pages of announcers (K = 8 per page)
            reply[key] = [_compact(t) for t in (PAGE_HOLDERS[:8] if page == 0 else PAGE_HOLDERS[8:])]
            reply[b'p'] = 2
        return reply


class ValueProtocol(LookupProtocol):
    def __init__(self, net):
        LookupProtocol.__init__(self, net)
        self.data_store = NoValues()

    def get_rpc_peer(self, peer):
        return ValueRpcPeer(self.net, peer)


class NoValues:
    def has_peers_for_blob(self, key):
        return False


def value_lookup(vm, n):
    """An iterative value lookup over n contacts, each without the value / silent / garbage / remote error / reply without token /
    holding the value / holding it next to an unusable announcer / holding two pages of announcers: the lookup ends and yields only
    well-formed public announcer addresses that a node really reported, none twice."""
    from lbry.dht.protocol.iterative_find import IterativeValueFinder
    from lbry.dht.peer import is_valid_public_ipv4
    from harness.C01 import LOOP, VM as C01_VM
    net = LookupNet(n)
    net.hostile_kind = 0
    kinds = []
    for p in net.peers:
        how = vm.pick('behaviour', 8)
        net.behaviour[p.node_id] = how
        kinds.append(how)
        if how == 6:
            net.hostile_kind = vm.pick('unusable_announcer', 4)
    loop = FinderLoop(vm)
    LOOP[0] = loop
    C01_VM[0] = vm
    known = 1 + vm.pick('initially_known', min(n, 2))
    try:
        finder = IterativeValueFinder(loop, ValueProtocol(net), b'\x55' * 48, 8, list(net.peers[:known]))
        finder.__aiter__()
    except Exception as e:
        return 'VIOLATION: starting the lookup raised %s' % type(e).__name__
    yielded = []
    finished = False
    for round_no in range(6 * n + 8):
        steps = 0
        while finder.iteration_queue.empty():
            try:
                more = loop.step()
            except Exception as e:
                return 'VIOLATION: the lookup raised %s' % type(e).__name__
            if not more:
                break
            steps += 1
            if steps > 60 * (n + 1):
                return 'VIOLATION: the lookup keeps working without ever producing a result or finishing'
        try:
            batch = vm.await_(finder.__anext__())
        except StopAsyncIteration:
            finished = True
            break
        except Hang:
            return 'VIOLATION: the lookup never finishes (nothing left to run, nothing queued)'
        except Exception as e:
            return 'VIOLATION: the lookup raised %s' % type(e).__name__
        for peer in batch:
            yielded.append(peer)
    if not finished:
        return 'VIOLATION: the lookup does not finish within the bound of rounds'
    if len(net.probed) > len(set(net.probed)):
        return 'VIOLATION: a contact was asked twice for the same page'
    reported = [HOLDER_A, HOLDER_B] + PAGE_HOLDERS
    seen = []
    for peer in yielded:
        triple = (peer.node_id, peer.address, peer.tcp_port)
        if type(peer.node_id) is not bytes or len(peer.node_id) != 48 or not is_valid_public_ipv4(peer.address) \
                or type(peer.tcp_port) is not int or not 0 < peer.tcp_port < 65536:
            return 'VIOLATION: a value lookup yields something that is not a well-formed public peer address'
        if triple not in reported:
            return 'VIOLATION: a value lookup yields an announcer no contacted node reported'
        if triple in seen:
            return 'VIOLATION: an announcer is yielded twice'
        seen.append(triple)
    # hit: when every node is honest (no value / holder / paged holder) everything the holders report is found
    if all(k in (0, 5, 7) for k in kinds):
        if 5 in kinds and (HOLDER_A not in seen or HOLDER_B not in seen):
            return 'VIOLATION: in an all-honest network an announcer reported by a holder is not yielded'
        if 7 in kinds and len([t for t in PAGE_HOLDERS if t in seen]) != len(PAGE_HOLDERS):
            return 'VIOLATION: in an all-honest network the second page of announcers is not yielded'
        return 'ok-all-honest'
    return 'ok'


def sym_setup(vm, job):
    if job.get('family') == 'lookup':
        import asyncio
        vm.models[id(asyncio.Queue)] = lambda vm_, a, k: vm_.call(ModelQueue, [], {})
        vm.lazy_async.add('IterativeFinder._send_probe')          # handed to loop.create_task: runs when the model loop lets the probe complete


class _LookupNative:
    def __enter__(self):
        import asyncio
        from harness.C01 import LOOP, VM as C01_VM
        self.saved = (asyncio.Queue, LOOP[0], C01_VM[0])
        asyncio.Queue = ModelQueue

    def __exit__(self, *a):
        import asyncio
        from harness.C01 import LOOP, VM as C01_VM
        asyncio.Queue, LOOP[0], C01_VM[0] = self.saved


def native_setup(nvm, job):
    return _LookupNative() if job.get('family') == 'lookup' else None


class StubProtocol:
    protocol_version = 1
    external_ip = '9.9.9.9'

    def __init__(self, store):
        self.node_id = b'\xaa' * 48
        self.data_store = store
        self.peer_manager = store._peer_manager


class Server(KademliaRPC):
    def __init__(self, protocol):
        self.protocol = protocol
        self.peer_port = 3333
        self.token_secret = b's' * 48
        self.old_token_secret = None

    def find_node(self, rpc_contact, key):
        return []

    def make_token(self, compact_ip):
        return b't' * 48


class RpcPeer:
    """What protocol.get_rpc_peer(peer) returns: find_value goes straight to the server object."""

    def __init__(self, server, requester, log):
        self.server, self.requester, self.log = server, requester, log

    async def find_value(self, key, page=0):
        self.log.append(page)
        response = self.server.find_value(self.requester, key, page)
        if key in response:                      # on the wire compact addresses are byte strings
            response[key] = [bytes(a) for a in response[key]]
        return response


class ClientProtocol:
    def __init__(self, rpc_peer, pm):
        self.rpc_peer = rpc_peer
        self.peer_manager = pm

    def get_rpc_peer(self, peer):
        return self.rpc_peer


class Client:
    send_probe = IterativeValueFinder.send_probe

    def __init__(self, protocol, key):
        self.protocol = protocol
        self.peer_manager = protocol.peer_manager
        self.key = key
        self.peer_pages = defaultdict(int)
        self.discovered_peers = defaultdict(set)
        self.contacted = set()


def paging(vm, lo, hi):
    n = vm.pick('announcers', hi - lo + 1) + lo
    clock = Clock()
    pm = PM(vm)
    store = DictDataStore(clock, pm)
    peers = [announcer(i) for i in range(n)]
    for p in peers:
        store.add_peer_to_blob(p, KEY)
    holds = vm.new_bool('server_holds_blob')
    if holds:
        store.completed_blobs.add(KEY.hex())
    who = vm.pick('requester', 3)
    if who == 0:
        requester = make_kademlia_peer(b'\x77' * 48, '7.7.7.7', udp_port=4444, tcp_port=None)      # no tcp port known
    elif who == 1 or n == 0:
        requester = make_kademlia_peer(b'\x77' * 48, '7.7.7.7', udp_port=4444, tcp_port=3999)      # not an announcer
    else:
        requester = peers[(0, n // 2, n - 1)[vm.pick('requester_is', 3)]]                            # the first / middle / last announcer
    server = Server(StubProtocol(store))
    log = []
    remote = make_kademlia_peer(server.protocol.node_id, '9.9.9.9', udp_port=4444)
    client = Client(ClientProtocol(RpcPeer(server, requester, log), pm), KEY)
    found = []
    for rnd in range(n // constants.K + 4):
        try:
            parsed = vm.await_(client.send_probe(remote))
        except Exception as e:
            return 'VIOLATION: probing for a value raised %s' % type(e).__name__
        if len(parsed.found_compact_addresses) > constants.K:
            return 'VIOLATION: more than K peers in one reply'
        found.extend(bytes(a) for a in parsed.found_compact_addresses)
        remote_again = len(log) > 0 and client.peer_pages[remote] > log[-1]
        if not remote_again:
            break
    want = [bytes(p.compact_address_tcp()) for p in peers
            if not requester.tcp_port or bytes(p.compact_address_tcp()) != bytes(requester.compact_address_tcp())]
    if holds and len(want) < constants.K:
        want.append(bytes(server.compact_address()))
    for a in want:
        if a not in found:
            return 'VIOLATION: paging never returns one of %d holders of the blob (pages requested: %s)' % (len(want), log)
    if len(found) != len(set(found)):
        return 'VIOLATION: a holder is returned twice across pages'
    for a in found:
        if a not in want:
            return 'VIOLATION: a peer that is not a holder (or the requester itself) is returned'
    if pm.failures:
        return 'VIOLATION: an honest server was reported as misbehaving'
    return 'ok'


class StoreServer(KademliaRPC):
    """Real store / make_token / verify_token / find_value on stub protocol objects."""

    def __init__(self, protocol, loop):
        self.protocol = protocol
        self.loop = loop
        self.peer_port = 3333
        self.token_secret = b's' * 48
        self.old_token_secret = None

    def find_node(self, rpc_contact, key):
        return []


def store_then_find(vm):
    """An announcement: store(blob, token, port) by a node, then a value lookup by another node returns the announcer's
    address and announced port; a store with an invalid port or (after a token refresh and the start-up grace) a wrong
    token is refused and stores nothing."""
    clock = Clock()
    pm = PM(vm)
    store = DictDataStore(clock, pm)
    protocol = StubProtocol(store)
    protocol.started_listening_time = 0
    server = StoreServer(protocol, clock)
    clock.now = vm.new_int('now', 0, 3 * DAY)
    if vm.new_bool('token_secret_was_refreshed'):
        server.refresh_token()
    announcer = make_kademlia_peer(b'\x42' * 48, '8.8.4.4', udp_port=4444)
    honest_token = server.make_token(announcer.compact_ip())
    if vm.new_bool('then_refreshed_once_more'):
        server.refresh_token()                        # a token stays valid for one refresh
    token = honest_token if vm.new_bool('token_is_the_one_handed_out') else b'f' * 48
    port = vm.new_int('port', -2, 65540)
    try:
        reply = server.store(announcer, KEY, token, port)
    except ValueError:
        if store.get_peers_for_blob(KEY):
            return 'VIOLATION: a refused store left an announcement behind'
        if 0 < port < 65535 and token is honest_token:
            return 'VIOLATION: a store with the token that was handed out and a valid port is refused'
        return 'ok-refused'
    except Exception as e:
        return 'VIOLATION: store raised %s' % type(e).__name__
    if not 0 < port < 65535:
        return 'VIOLATION: a store with an invalid tcp port is accepted'
    if reply != b'OK':
        return 'VIOLATION: store does not answer OK'
    requester = make_kademlia_peer(b'\x77' * 48, '7.7.7.7', udp_port=4444, tcp_port=3999)
    found = server.find_value(requester, KEY, 0).get(KEY, [])
    want = bytes([8, 8, 4, 4]) + port.to_bytes(2, 'big') + b'\x42' * 48          # compact address: ip, tcp port, node id
    if [bytes(a) for a in found] != [bytes(want)]:
        return 'VIOLATION: a value lookup after the store does not return the announcer with the announced port'
    return 'ok-stored'


def jobs(tier):
    out = []
    for n_peers, n_events in ([(1, 3), (2, 3), (2, 4)] if tier == 'quick' else [(1, 3), (1, 5), (2, 4), (2, 5), (3, 4)]):
        out.append(dict(name=f'expiry-{n_peers}peers-{n_events}events', family='expiry', fn='expiry', args=(n_peers, n_events),
                        loop_bound=200, max_depth=60, cost=30 ** n_events // 100,
                        bounds=dict(announcers=n_peers, events=n_events, event_kinds='announce / clean-up / mark good-bad-unknown',
                                    clock='symbolic non-decreasing, steps up to 3 days')))
    for n in ((2, 3) if tier == 'quick' else (2, 3, 4)):
        out.append(dict(name=f'node-lookup-{n}-contacts', family='lookup', fn='node_lookup', args=(n,), loop_bound=400, max_depth=60, cost=20 * 30 ** (n - 1),
                        bounds=dict(contacts=n, behaviours='honest / silent / garbage payload / remote error / unusable contact triple, per contact',
                                    completion_order='every order of the outstanding probes', initially_known='1-2 contacts'),
                        must_reach=('ok', 'ok-all-honest')))
    for n in ((2,) if tier == 'quick' else (2, 3)):
        out.append(dict(name=f'value-lookup-{n}-contacts', family='lookup', fn='value_lookup', args=(n,), loop_bound=400, max_depth=80, cost=20 * 60 ** (n - 1),
                        bounds=dict(contacts=n, behaviours='no value / silent / garbage payload / remote error / reply without token / holder of two '
                                    'announcers / holder listing an unusable announcer (0.0.0.0, loopback, port 0, short node id) / holder of two pages, per contact',
                                    completion_order='every order of the outstanding probes', initially_known='1-2 contacts'),
                        must_reach=('ok', 'ok-all-honest')))
    out.append(dict(name='duplicated-response', family='duplicate', fn='duplicated_response', args=(), loop_bound=200, max_depth=60, cost=20,
                    bounds=dict(history='0-2 earlier failures, request, reply within the timeout, the same reply again after 0..10^4 s, rating asked '
                                '0..10^4 s later', clock='symbolic'), must_reach=('ok-good',)))
    out.append(dict(name='store-then-find', family='store', fn='store_then_find', args=(), loop_bound=200, max_depth=60, cost=50,
                    bounds=dict(port='-2..65540', token='the one handed out or another', refreshes='0..2', clock='0..3 days after start'),
                    must_reach=('ok-stored', 'ok-refused')))
    ranges = [(0, 9), (10, 19), (20, 27), (86, 90), (96, 100)] if tier == 'quick' else [(lo, lo + 4) for lo in range(0, 130, 5)]
    for lo, hi in ranges:
        out.append(dict(name=f'paging-{lo}-{hi}', family='paging', fn='paging', args=(lo, hi), loop_bound=400,
                        max_depth=60, cost=200 + 20 * lo,
                        bounds=dict(announcers=f'{lo}..{hi}', K=constants.K,
                                    requester='no tcp port / stranger / first, middle or last announcer', server_holds_blob='symbolic')))
    return out


def finding_key(job, verdict, inputs, named):
    import re
    return f'{job.get("family")}|{re.sub(r"one of [0-9]+ holders of the blob .*", "a holder of the blob", verdict)}'


def _expiry_le(node):
    import ast
    for n in ast.walk(node):
        if isinstance(n, ast.Compare) and isinstance(n.ops[0], ast.Gt) and isinstance(n.comparators[0], ast.Name) and n.comparators[0].id == 'now':
            n.ops[0] = ast.GtE()
            return True
    return False


def _page_slice(node):
    import ast
    for n in ast.walk(node):
        if isinstance(n, ast.Subscript) and isinstance(n.slice, ast.Slice) and isinstance(n.slice.lower, ast.BinOp) \
                and isinstance(n.slice.upper, ast.BinOp):
            n.slice.upper = ast.BinOp(left=n.slice.upper, op=ast.Sub(), right=ast.Constant(1))
            return True
    return False


def _old_page_count(node):
    """Canary: the page count that loses the last page from 89 holders on."""
    import ast
    for n in ast.walk(node):
        if isinstance(n, ast.Assign) and isinstance(n.targets[0], ast.Subscript) and isinstance(n.value, ast.BinOp) \
                and isinstance(n.value.op, ast.FloorDiv):
            n.value = ast.parse('len(peers) // (constants.K + 1) + 1').body[0].value
            return True
    return False


def _store_port_unchecked(node):
    import ast
    for n in ast.walk(node):
        if isinstance(n, ast.If) and 'port' in ast.unparse(n.test) and 'invalid tcp port' in ast.unparse(n):
            n.test = ast.Constant(False)
            return True
    return False


def _no_round_after_failed_probe(node):
    """Canary: the probe's done-callback returns early when the probe raised (no further search round)."""
    import ast
    for n in ast.walk(node):
        if isinstance(n, ast.FunctionDef) and n.name == 'callback':
            n.body.insert(1, ast.parse('if _.cancelled() or _.exception() is not None:\n    return').body[0])
            return True
    return False


def _page_not_advanced(node):
    """Canary: the value finder re-probes a peer that announced more pages but never moves on to the next page."""
    import ast
    for n in ast.walk(node):
        if isinstance(n, ast.AugAssign) and 'peer_pages' in ast.unparse(n.target):
            n.value = ast.Constant(0)
            return True
    return False


CANARIES = [
    dict(name='value-lookup-page-not-advanced', target='lbry.dht.protocol.iterative_find:IterativeValueFinder.send_probe',
         mutate=_page_not_advanced, job=dict(family='lookup', fn='value_lookup', args=(2,), loop_bound=400, max_depth=80)),
    dict(name='no-search-round-after-failed-probe', target='lbry.dht.protocol.iterative_find:IterativeFinder._schedule_probe',
         mutate=_no_round_after_failed_probe, job=dict(family='lookup', fn='node_lookup', args=(2,), loop_bound=400, max_depth=60)),
    dict(name='store-accepts-any-port', target='lbry.dht.protocol.protocol:KademliaRPC.store', mutate=_store_port_unchecked,
         job=dict(family='store', fn='store_then_find', args=(), loop_bound=200, max_depth=60)),
    dict(name='page-count-undercounts', target='lbry.dht.protocol.protocol:KademliaRPC.find_value', mutate=_old_page_count,
         job=dict(family='paging', fn='paging', args=(88, 90), loop_bound=400, max_depth=60)),
    dict(name='expires-one-second-late', target='lbry.dht.protocol.data_store:DictDataStore.filter_expired_peers', mutate=_expiry_le,
         job=dict(family='expiry', fn='expiry', args=(1, 3), loop_bound=200, max_depth=60)),
    dict(name='page-one-short', target='lbry.dht.protocol.protocol:KademliaRPC.find_value', mutate=_page_slice,
         job=dict(family='paging', fn='paging', args=(0, 9), loop_bound=400, max_depth=60)),
]
