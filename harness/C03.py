"""C03 - transaction funding conserves value, pays a bounded fee and returns change.

Interpreted from /repo: Transaction.create and everything it calls for sign=False (add_inputs/add_outputs/_reset,
get_base_fee, get_effective_input_sum, get_total_output_sum, size/raw/_serialize), Input.spend/size/get_fee,
Output.pay_pubkey_hash/get_fee/get_estimator, OutputEffectiveAmountEstimator, Ledger.get_spendable_utxos,
get_effective_amount_estimators, reserve_outputs, release_outputs, release_tx (real functions on a stub ledger) and
all of CoinSelector; the script generator and BCDataStream as needed for sizes."""
from lbry.error import InsufficientFundsError
from lbry.wallet import coinselection
from lbry.wallet.constants import DUST, COIN, NULL_HASH32
from lbry.wallet.hash import TXRefImmutable
from lbry.wallet.ledger import Ledger
from lbry.wallet.transaction import Transaction, Output, Input

LEVEL_TEXT = ('Bounded model checking of the real funding code: the amounts and confirmation heights of up to k wallet '
              'UTXOs, the requested payment, an optional claim output, an optional pre-chosen input and the fee rate are '
              'symbolic; every coin-selection strategy except the SQL one is run, with every outcome of the random '
              'shuffle; conservation, fee bounds, change, reservation and failure obligations are solver-checked on every path.')
LEVEL_NOTE = ('Trusted: z3, the interpreter (every path is replayed natively on the real Transaction.create with the same '
              'stubs), the stub ledger/database/account objects (python lists with reservation flags).  Outside: the sqlite '
              'strategy (SQL), more UTXOs than the bound, signing (C04), compact-size growth at 253 inputs.')
ASSUMPTIONS = [
    'db stub: UTXOs are a python list; reserve/release set and clear a flag; get_utxos returns the unreserved ones',
    'Random stub: every call of random() may return any value (all shuffle permutations); Random.shuffle has the '
    'signature of the running interpreter (no `random` argument on Python >= 3.11)',
    'change address constant; sign=False (input scripts keep their 72/33-byte placeholders, which is what create() sizes fees with)',
]
OUTSIDE = ['the sqlite coin selection strategy outside the real-db job (concrete amount and payment catalogues)', 'more UTXOs/outputs than the bound', 'signing and real signature sizes']

VM_REF = [None]
CHANGE_ADDRESS = 'bW5PZEvEBNPQRVhwpYXSjabFgbSw1oaHyR'


# ------------------------------------------------------------------------------------------------ stubs
class Draw:
    """random() * k: int() of it is an arbitrary index in [0, k)."""

    def __init__(self, k):
        self.k = k

    def __int__(self):
        return VM_REF[0].new_int('shuffle_j', 0, self.k - 1)


class UnitDraw:
    def __mul__(self, k):
        return Draw(k)

    __rmul__ = __mul__


class StubRandom:
    def __init__(self, seed=None):
        pass

    def seed(self, *a, **k):
        pass

    def random(self):
        return UnitDraw()

    def shuffle(self, x):                 # signature of random.Random.shuffle on Python >= 3.11
        for i in reversed(range(1, len(x))):
            j = VM_REF[0].new_int('shuffle_j', 0, i)
            x[i], x[j] = x[j], x[i]


class StubDB:
    def __init__(self):
        self.reserved = []
        self.ever_reserved = []

    async def reserve_outputs(self, txos):
        for t in txos:
            self.reserved.append(t)
            self.ever_reserved.append(t)

    async def release_outputs(self, txos):
        for t in txos:
            if t in self.reserved:
                self.reserved.remove(t)


class AddressFault(Exception):
    """Injected failure of the change-address lookup (a database error after the inputs were reserved)."""


class StubChain:
    def __init__(self):
        self.asked = 0
        self.may_fail = False

    async def get_or_create_usable_address(self):
        self.asked += 1
        if self.may_fail and VM_REF[0].new_bool('change_address_lookup_fails'):
            raise AddressFault()
        return CHANGE_ADDRESS


class StubAccount:
    def __init__(self, ledger, utxos):
        self.ledger = ledger
        self.wallet = 'wallet'
        self.change = StubChain()
        self.utxos = utxos

    async def get_utxos(self, **constraints):
        return [u for u in self.utxos if u not in self.ledger.db.reserved]


class StubLock:
    async def __aenter__(self):
        return None

    async def __aexit__(self, *a):
        return False


class StubLedger:
    fee_per_byte = 50
    fee_per_name_char = 200000
    coin_selection_strategy = None
    get_spendable_utxos = Ledger.get_spendable_utxos
    get_effective_amount_estimators = Ledger.get_effective_amount_estimators
    reserve_outputs = Ledger.reserve_outputs
    release_outputs = Ledger.release_outputs
    release_tx = Ledger.release_tx
    address_to_hash160 = staticmethod(Ledger.address_to_hash160)

    def __init__(self):
        self.db = StubDB()
        self._utxo_reservation_lock = StubLock()


def make_utxo(i, amount, height, funding_tx=None):
    """Unspent output number i; by default each comes from its own funding transaction (position 0), with
    funding_tx=j it is output number i of funding transaction j."""
    txo = Output.pay_pubkey_hash(amount, bytes([i + 1]) * 20)
    txo.tx_ref = TXRefImmutable.from_id(('%02x' % ((i if funding_tx is None else funding_tx) + 1)) * 32, height)
    txo.position = 0 if funding_tx is None else i
    return txo


ACCUMULATING = (None, 'standard', 'prefer_confirmed')


def run(vm, k, strategy, with_claim, preset, sym_rate, mask=None, faults=False):
    VM_REF[0] = vm
    ledger = StubLedger()
    ledger.coin_selection_strategy = strategy
    if sym_rate:
        ledger.fee_per_byte = vm.new_int('fee_per_byte', 0, 10000)
    rate = ledger.fee_per_byte
    amounts = [vm.new_int('utxo', 0, 21 * 10 ** 16) for _ in range(k)]
    if mask is None:
        heights = [vm.new_int('height', -1, 1) for _ in range(k)]
    else:
        heights = [1 if (mask >> i) & 1 else 0 for i in range(k)]      # confirmed / unconfirmed pattern of this job
    shared = k >= 2 and mask is None and vm.new_bool('two_outputs_of_one_funding_tx')
    utxos = [make_utxo(i, a, h, 0 if (shared and i < 2) else None) for i, (a, h) in enumerate(zip(amounts, heights))]
    account = StubAccount(ledger, utxos)
    account.change.may_fail = faults
    outputs = []
    pay = vm.new_int('pay', 0, 21 * 10 ** 16)
    outputs.append(Output.pay_pubkey_hash(pay, b'\x07' * 20))
    if with_claim:
        stake = vm.new_int('stake', 0, 21 * 10 ** 16)
        name = vm.new_str('name_char', 1, 0x20, 0x10ffff) + '-nam'          # any first character: 1..4 bytes in UTF-8
        try:
            name_bytes = name.encode()
        except UnicodeEncodeError:
            return 'ok-unencodable-name'
        outputs.append(Output.pay_claim_name_pubkey_hash(stake, name, b'\x01claimpayload', b'\x08' * 20))
    requested = list(outputs)
    wanted = [o.amount for o in requested]
    inputs = []
    preset_txo = None
    if preset:
        preset_txo = make_utxo(40, vm.new_int('preset', 0, 21 * 10 ** 16), 5)
        inputs.append(Input.spend(preset_txo))
    in_fee = Input.spend(make_utxo(50, 1, 1)).size * rate
    try:
        tx = vm.await_(Transaction.create(inputs, outputs, [account], account, False))
    except InsufficientFundsError:
        if ledger.db.reserved:
            return 'VIOLATION: outputs stay reserved after an insufficient-funds failure'
        usable = 0
        for a, h in zip(amounts, heights):
            if a - in_fee > 0 and (strategy != 'only_confirmed' or h > 0):
                usable = usable + (a - in_fee)
        probe = Transaction().add_inputs([Input.spend(preset_txo)] if preset else []).add_outputs(requested)
        cost = probe.get_base_fee(ledger) + probe.get_total_output_sum(ledger)
        have = (preset_txo.amount - in_fee) if preset else 0
        if strategy in ACCUMULATING + ('only_confirmed',) and have + usable >= cost:
            return 'VIOLATION: refused although spendable outputs worth more than their fee cover the cost'
        return 'ok-insufficient'
    except AddressFault:
        if ledger.db.reserved:
            return 'VIOLATION: outputs stay reserved after a failure that followed the funding step'
        return 'ok-fault-released'
    except Exception as e:
        return 'VIOLATION: transaction building failed with %s instead of an insufficient-funds error' % type(e).__name__
    # ---- success obligations
    if len(tx.outputs) < len(requested):
        return 'VIOLATION: requested output missing'
    for i in range(len(requested)):
        if tx.outputs[i] is not requested[i] or requested[i].amount is not wanted[i]:
            return 'VIOLATION: requested output changed or moved'
    n_preset = 1 if preset else 0
    seen = []
    for i, txi in enumerate(tx.inputs):
        txo = txi.txo_ref.txo
        if i < n_preset:
            if txo is not preset_txo:
                return 'VIOLATION: pre-chosen input changed'
            continue
        found = False
        for u in utxos:
            if txo is u:
                found = True
        if not found:
            return 'VIOLATION: an input is not an unspent output of the funding account'
        for s in seen:
            if s is txo:
                return 'VIOLATION: the same output funds the transaction twice'
        seen.append(txo)
        if txo not in ledger.db.reserved:
            return 'VIOLATION: a selected output is not reserved'
    for r in ledger.db.reserved:
        ok = False
        for s in seen:
            if s is r:
                ok = True
        if not ok:
            return 'VIOLATION: an output is reserved but not used by the transaction'
    ins = 0
    for txi in tx.inputs:
        ins = ins + txi.txo_ref.txo.amount
    outs = 0
    for o in tx.outputs:
        outs = outs + o.amount
    fee = ins - outs
    if tx.fee != fee:
        return 'VIOLATION: reported fee is not inputs minus outputs'
    min_fee = tx.get_base_fee(ledger)
    for txi in tx.inputs:
        min_fee = min_fee + txi.get_fee(ledger)
    for idx, o in enumerate(tx.outputs):
        out_fee = o.size * rate
        if with_claim and idx == 1:
            out_fee = max(out_fee, len(name_bytes) * ledger.fee_per_name_char)      # a new claim pays per byte of its name
        min_fee = min_fee + out_fee
    if min_fee < tx.size * rate:
        return 'VIOLATION: harness expectation (name fee below size fee)'
    if fee < min_fee:
        return 'VIOLATION: fee is below the byte-size / name fee'
    cost_of_change = (10 + 34) * rate
    if fee > min_fee + 2 * cost_of_change + DUST:
        return 'VIOLATION: fee exceeds the size fee by more than two change-output costs plus dust'
    extra = tx.outputs[len(requested):]
    if len(extra) > 1:
        return 'VIOLATION: more than one change output'
    if extra:
        ch = extra[0]
        if not ch.script.is_pay_pubkey_hash or ch.script.values['pubkey_hash'] != Ledger.address_to_hash160(CHANGE_ADDRESS):
            return 'VIOLATION: change does not go to the change chain'
        if ch.amount <= DUST:
            return 'VIOLATION: change output at or below the dust threshold'
        return 'ok-change'
    return 'ok-exact'


def no_outputs(vm, k, strategy):
    """Only a pre-chosen input (e.g. abandoning a claim): everything but the fee must come back as change."""
    VM_REF[0] = vm
    ledger = StubLedger()
    ledger.coin_selection_strategy = strategy
    amounts = [vm.new_int('utxo', 0, 21 * 10 ** 16) for _ in range(k)]
    utxos = [make_utxo(i, a, 1) for i, a in enumerate(amounts)]
    account = StubAccount(ledger, utxos)
    preset_txo = make_utxo(40, vm.new_int('preset', 0, 21 * 10 ** 16), 5)
    try:
        tx = vm.await_(Transaction.create([Input.spend(preset_txo)], [], [account], account, False))
    except InsufficientFundsError:
        if ledger.db.reserved:
            return 'VIOLATION: outputs stay reserved after an insufficient-funds failure'
        return 'ok-insufficient'
    except Exception as e:
        return 'VIOLATION: transaction building failed with %s instead of an insufficient-funds error' % type(e).__name__
    if not tx.outputs:
        return 'VIOLATION: transaction without any output returned'
    ins = 0
    for txi in tx.inputs:
        ins = ins + txi.txo_ref.txo.amount
    outs = 0
    for o in tx.outputs:
        outs = outs + o.amount
    fee = ins - outs
    size_fee = tx.size * ledger.fee_per_byte
    if fee < size_fee:
        return 'VIOLATION: fee is below the byte-size / name fee'
    # each of the (at most five) balancing attempts may add one change-output cost (+1) to the budget
    change_cost = (10 + Output.pay_pubkey_hash(COIN, NULL_HASH32).size) * ledger.fee_per_byte
    if fee > size_fee + 5 * (change_cost + 1) + DUST:
        return 'VIOLATION: fee exceeds the size fee by more than five change-output costs plus dust'
    if len(tx.outputs) != 1 or tx.outputs[0].amount <= DUST:
        return 'VIOLATION: change output count / dust'
    return 'ok-change'


# ------------------------------------------------------------------------------------------------ runner interface
class _Patch:
    def __enter__(self):
        self.old = coinselection.Random
        coinselection.Random = StubRandom

    def __exit__(self, *a):
        coinselection.Random = self.old


def sym_setup(vm, job):
    coinselection.Random = StubRandom        # module global read by the interpreted CoinSelector.__init__
    if job.get('family') == 'sql':
        from harness import C14
        C14.sym_setup(vm, job)


def native_setup(nvm, job):
    if job.get('family') == 'sql':
        from harness import C14
        return C14.native_setup(nvm, job)
    return _Patch()


def spend_sql_job(vm, n_utxo, strategies):
    """Selection over the real wallet database (harness/spend_sql.py): the `sqlite` strategy, which the other jobs cannot reach."""
    from harness import spend_sql
    from symvm import standin
    standin.guard_harness_classes()
    return spend_sql.spend(vm, n_utxo, strategies)


STRATEGIES = [None, 'prefer_confirmed', 'only_confirmed', 'branch_and_bound', 'closest_match', 'random_draw']


def jobs(tier):
    out = []
    for strat in STRATEGIES:
        sname = strat or 'default'
        ks = [0, 1, 2] if tier == 'quick' else [0, 1, 2]
        for k in ks:
            out.append(dict(name=f'fund-{sname}-{k}utxo', family='fund', fn='run', args=(k, strat, False, False, False),
                            loop_bound=200, max_depth=60, cost=8 ** k,
                            bounds=dict(utxos=k, strategy=sname, outputs='1 payment', fee_per_byte=50,
                                        amounts='0..2.1e17 symbolic', heights='-1..1 symbolic')))
        big = []
        if tier == 'quick':
            big = [3] if strat in (None, 'prefer_confirmed') else []
        else:
            big = [3, 4] if strat in (None, 'prefer_confirmed', 'only_confirmed') else [3]
        for k in big:
            masks = range(2 ** k) if strat in ('prefer_confirmed', 'only_confirmed') else [0]
            for mask in masks:
                out.append(dict(name=f'fund-{sname}-{k}utxo-conf{mask:0{k}b}', family='fund', fn='run',
                                args=(k, strat, False, False, False, mask), loop_bound=400, max_depth=60, cost=8 ** k,
                                bounds=dict(utxos=k, strategy=sname, outputs='1 payment', fee_per_byte=50,
                                            amounts='0..2.1e17 symbolic', confirmed_pattern=f'{mask:0{k}b}')))
        out.append(dict(name=f'fund-{sname}-claim-2utxo', family='fund', fn='run', args=(2, strat, True, False, False),
                        loop_bound=200, max_depth=60, cost=100,
                        bounds=dict(utxos=2, strategy=sname, outputs='payment + claim (name fee applies)', fee_per_byte=50)))
        out.append(dict(name=f'fund-{sname}-preset-2utxo', family='fund', fn='run', args=(2, strat, False, True, False),
                        loop_bound=200, max_depth=60, cost=100,
                        bounds=dict(utxos=2, strategy=sname, outputs='1 payment', preset_inputs=1, fee_per_byte=50)))
        out.append(dict(name=f'fund-{sname}-rate-{1 if tier == "quick" else 2}utxo', family='fund', fn='run',
                        args=(1 if tier == 'quick' else 2, strat, False, False, True), loop_bound=200, max_depth=60, cost=100,
                        bounds=dict(utxos=1 if tier == 'quick' else 2, strategy=sname, outputs='1 payment',
                                    fee_per_byte='0..10000 symbolic')))
    for k in ((1, 2) if tier == 'quick' else (1, 2, 3)):
        out.append(dict(name=f'fund-default-{k}utxo-faults', family='fund', fn='run', args=(k, None, False, False, False, None, True),
                        loop_bound=200, max_depth=60, cost=8 ** k * 2,
                        bounds=dict(utxos=k, strategy='default', outputs='1 payment', fee_per_byte=50,
                                    faults='the change-address lookup may fail after the inputs were reserved'),
                        must_reach=('ok-fault-released',)))
    for k in ((0, 1, 2) if tier == 'quick' else (0, 1, 2, 3)):
        out.append(dict(name=f'no-outputs-{k}utxo', family='no-outputs', fn='no_outputs', args=(k, None), loop_bound=200,
                        max_depth=60, cost=8 ** k, bounds=dict(utxos=k, preset_inputs=1, outputs=0)))
    out.append(dict(name='real-db-sqlite-strategy-3utxo', family='sql', fn='spend_sql_job', args=(3, ('sqlite',)), loop_bound=2000, max_depth=80,
                    cost=3000, bounds=dict(database='real sqlite3, real schema, filled by the real sync code', utxos=3,
                                           utxo_amounts='50000 / 10^6 / 10^8 dewies (band edges of the sqlite chooser)',
                                           payments='60000 / 10^8 - 20000 / 1.5 * 10^8', strategy='sqlite',
                                           builds='2 selections in sequence, optionally a re-sync in between, then a release'),
                    must_reach=('ok', 'ok-both-funded')))
    return out


def finding_key(job, verdict, inputs, named):
    strat = job['args'][1] if len(job['args']) > 1 else None
    return f'{job.get("family")}|{strat or "default"}|{verdict}'


def _no_release(node):
    import ast
    for n in ast.walk(node):
        if isinstance(n, ast.ExceptHandler):
            n.body = [b for b in n.body if not (isinstance(b, ast.Expr) and isinstance(b.value, ast.Await))]
            return True
    return False


def _dust_ge(node):
    import ast
    for n in ast.walk(node):
        if isinstance(n, ast.Compare) and isinstance(n.comparators[0], ast.Name) and n.comparators[0].id == 'DUST':
            n.ops[0] = ast.GtE()
            return True
    return False


def _no_reserve(node):
    import ast
    for n in ast.walk(node):
        if isinstance(n, ast.If) and isinstance(n.test, ast.Name) and n.test.id == 'spendables':
            n.body = [ast.Pass()]
            return True
    return False


CANARIES = [
    dict(name='failure-does-not-release', target='lbry.wallet.transaction:Transaction.create', mutate=_no_release,
         job=dict(family='fund', fn='no_outputs', args=(1, None), loop_bound=200, max_depth=60)),
    dict(name='change-at-dust', target='lbry.wallet.transaction:Transaction.create', mutate=_dust_ge,
         job=dict(family='fund', fn='run', args=(1, None, False, False, False), loop_bound=200, max_depth=60)),
    dict(name='selected-not-reserved', target='lbry.wallet.ledger:Ledger.get_spendable_utxos', mutate=_no_reserve,
         job=dict(family='fund', fn='run', args=(1, None, False, False, False), loop_bound=200, max_depth=60)),
]
