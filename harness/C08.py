"""C08 - SPV: a transaction is marked verified only with a Merkle proof to its header.

Interpreted from /repo: Ledger.get_root_of_merkle_tree and Ledger.maybe_verify_transaction (real functions on a stub
ledger object).  double SHA-256 is an ideal injective function; leaves (transaction hashes) are symbolic 32-byte strings
assumed pairwise distinct (transaction ids within a block are unique)."""
from binascii import hexlify

from lbry.wallet.ledger import Ledger
from lbry.crypto.hash import double_sha256

LEVEL_TEXT = ('Bounded model checking of the real proof-folding code: for every block size up to the bound and every '
              'transaction index (symbolic position), the genuine branch produced by an independent tree builder folds to '
              'the root; every single forged branch element, transaction hash or position bit is shown (solver, under '
              'injectivity of the hash) to change the root unless the tree itself pairs the node with its own copy; '
              'the verified flag is set only for 0 < height < len(headers) and a matching header root.')
LEVEL_NOTE = ('Trusted: z3, the interpreter (every path witness is replayed natively with the real double SHA-256), the '
              'reference tree builder.  Assumed: double SHA-256 is injective (collision resistance) and transaction ids in '
              'a block are distinct.  Outside: blocks larger than the bound, the network fetch of the proof, the header '
              'store (C07).')
ASSUMPTIONS = ['double_sha256 = ideal injective function on 64-byte inputs', 'leaves of one block are pairwise distinct',
               'stub ledger: headers = list of dicts with a symbolic merkle_root; network is never asked when a proof is supplied']
OUTSIDE = ['blocks with more transactions than the bound', 'claim_proofs.verify_proof (legacy, not on the wallet path)',
           'branch length mutations (need a no-cycle assumption on the hash beyond injectivity)']


def ref_tree(leaves):
    levels = [list(leaves)]
    while len(levels[-1]) > 1:
        cur = levels[-1]
        if len(cur) % 2:
            cur = cur + [cur[-1]]
        levels.append([double_sha256(cur[i] + cur[i + 1]) for i in range(0, len(cur), 2)])
    return levels


def ref_branch(levels, idx):
    """(sibling, is the node paired with a copy of itself?) per level."""
    branch = []
    for lvl in levels[:-1]:
        self_paired = len(lvl) % 2 == 1 and idx == len(lvl) - 1
        cur = lvl if len(lvl) % 2 == 0 else lvl + [lvl[-1]]
        branch.append((cur[idx ^ 1], self_paired))
        idx //= 2
    return branch


def make_leaves(vm, n):
    leaves = [vm.new_bytes('leaf', 32, True) for i in range(n)]
    for i in range(n):
        for j in range(i):
            vm.assume(leaves[i] != leaves[j])
    return leaves


def setup(vm, n):
    leaves = make_leaves(vm, n)
    levels = ref_tree(leaves)
    root = levels[-1][0]
    k = vm.pick('idx', n)
    branch = ref_branch(levels, k)
    wire = [hexlify(b[::-1]) for b, _ in branch]        # what the server sends: hex of the reversed hash
    return leaves, hexlify(root[::-1]), k, branch, wire


def genuine(vm, n):
    leaves, expected, k, branch, wire = setup(vm, n)
    got = Ledger.get_root_of_merkle_tree(wire, k, leaves[k])
    if got != expected:
        return 'VIOLATION: genuine Merkle proof rejected'
    # any position whose low bits are the index works the same (higher bits are never consumed)
    high = vm.new_int('high_bits', 0, 7)
    if Ledger.get_root_of_merkle_tree(wire, k + high * 2 ** len(wire), leaves[k]) != expected:
        return 'VIOLATION: unused high position bits change the result'
    return 'ok'


def forged_branch(vm, n):
    leaves, expected, k, branch, wire = setup(vm, n)
    if not branch:
        return 'ok-trivial'
    j = vm.pick('which', len(branch))
    forged = vm.new_bytes('forged', 32, True)
    vm.assume(forged != branch[j][0])
    wire[j] = hexlify(forged[::-1])
    if Ledger.get_root_of_merkle_tree(wire, k, leaves[k]) == expected:
        return 'VIOLATION: proof with a forged branch element accepted'
    return 'ok-rejected'


def forged_tx(vm, n):
    leaves, expected, k, branch, wire = setup(vm, n)
    other = vm.new_bytes('other_tx', 32, True)
    vm.assume(other != leaves[k])
    if Ledger.get_root_of_merkle_tree(wire, k, other) == expected:
        return 'VIOLATION: proof accepted for another transaction hash'
    return 'ok-rejected'


def flipped_position(vm, n):
    leaves, expected, k, branch, wire = setup(vm, n)
    if not branch:
        return 'ok-trivial'
    j = vm.pick('bit', len(branch))
    pos = k ^ (1 << j)
    got = Ledger.get_root_of_merkle_tree(wire, pos, leaves[k])
    if got == expected:
        if branch[j][1]:
            return 'ok-self-paired'          # the tree hashes the node with its own copy: both sides are the same bytes
        return 'VIOLATION: proof accepted with a flipped position bit'
    if branch[j][1]:
        return 'VIOLATION: harness expectation wrong (self-paired node must be side-independent)'
    return 'ok-rejected'


class StubHeaders:
    def __init__(self, n, roots):
        self.n, self.roots = n, roots

    def __len__(self):
        return self.n

    async def get(self, height):
        return {'merkle_root': self.roots[height], 'block_height': height}


class StubNetwork:
    def __init__(self):
        self.asked = 0

    async def retriable_call(self, fn, *args):
        self.asked += 1
        raise AssertionError('network must not be asked when a proof is supplied')

    def get_merkle(self, *a):
        return None


class StubLedger:
    maybe_verify_transaction = Ledger.maybe_verify_transaction
    get_root_of_merkle_tree = staticmethod(Ledger.get_root_of_merkle_tree)

    def __init__(self, headers):
        self.headers = headers
        self.network = StubNetwork()


class StubTx:
    def __init__(self, tx_hash):
        self.hash = tx_hash
        self.id = 'id'
        self.height = -2
        self.position = -1
        self.is_verified = False


def verify_flag(vm, n, n_headers):
    leaves, expected, k, branch, wire = setup(vm, n)
    height = vm.new_int('height', -3, n_headers + 3)
    other_root = hexlify(vm.new_bytes('other_root', 32, True)[::-1])
    vm.assume(other_root != expected)
    # at most one stored header commits to this tree; the proof may name any block height of its own
    root_at = vm.pick('header_with_this_root', n_headers + 1)
    roots = [expected if i == root_at else other_root for i in range(n_headers)]
    claimed = vm.new_int('proof_block_height', -3, n_headers + 3)
    ledger = StubLedger(StubHeaders(n_headers, roots))
    tx = StubTx(leaves[k])
    try:
        vm.await_(ledger.maybe_verify_transaction(tx, height, {'merkle': wire, 'pos': k, 'block_height': claimed}))
    except Exception as e:
        return 'VIOLATION: verification raised %s (a header outside the stored range was consulted)' % type(e).__name__
    if tx.height != height:
        return 'VIOLATION: transaction height not recorded'
    in_range = 0 < height < n_headers
    honest = height == root_at
    if tx.is_verified and not in_range:
        return 'VIOLATION: verified at a height the wallet has no header for'
    if tx.is_verified and not honest:
        return 'VIOLATION: verified although the header at that height has another merkle root'
    if in_range and honest and not tx.is_verified:
        return 'VIOLATION: genuine proof to the header root not accepted'
    if tx.is_verified and tx.position != k:
        return 'VIOLATION: verified transaction records another position'
    return 'ok-verified' if tx.is_verified else 'ok-unverified'


def missing_proof(vm, n_headers):
    """A reply without a 'merkle' member never verifies."""
    height = vm.new_int('height', -3, n_headers + 3)
    ledger = StubLedger(StubHeaders(n_headers, [b'00' * 32] * n_headers))
    tx = StubTx(vm.new_bytes('tx', 32, True))
    vm.await_(ledger.maybe_verify_transaction(tx, height, {'block_height': height}))
    if tx.is_verified:
        return 'VIOLATION: verified without a proof'
    return 'ok'


def sym_setup(vm, job):
    from symvm.ideal import IdealFn
    import lbry.wallet.ledger as L
    h = IdealFn(vm, 'dsha256', 32, injective=True)
    vm.models[id(double_sha256)] = h.model()
    vm.models[id(L.double_sha256)] = h.model()


def jobs(tier):
    out = []
    ns = [1, 2, 3, 4, 5, 6, 7, 8] if tier == 'quick' else list(range(1, 17)) + [20]
    for n in ns:
        out.append(dict(name=f'genuine-{n}', family='genuine', fn='genuine', args=(n,), loop_bound=80, max_depth=40, cost=n * n,
                        bounds=dict(block_transactions=n, index='every index', leaves='symbolic 32-byte hashes, distinct'),
                        must_reach=('ok',)))
    ns2 = [2, 3, 4, 5, 7, 8] if tier == 'quick' else [2, 3, 4, 5, 6, 7, 8, 9, 11, 12, 13, 15, 16]
    for n in ns2:
        for fn in ('forged_branch', 'forged_tx', 'flipped_position'):
            out.append(dict(name=f'{fn}-{n}', family=fn, fn=fn, args=(n,), loop_bound=80, max_depth=40, cost=n * n * 3,
                            bounds=dict(block_transactions=n, index='every index', mutation=fn), must_reach=('ok-rejected',)))
    for n, nh in ((1, 3), (3, 3), (4, 5)):
        out.append(dict(name=f'verify-flag-{n}-{nh}', family='verify', fn='verify_flag', args=(n, nh), loop_bound=80, max_depth=40,
                        cost=50, bounds=dict(block_transactions=n, headers=nh, height=f'[-3, {nh + 3}]'),
                        must_reach=('ok-verified', 'ok-unverified')))
    out.append(dict(name='missing-proof', family='verify', fn='missing_proof', args=(4,), loop_bound=80, max_depth=40, cost=5,
                    bounds=dict(headers=4), must_reach=('ok',)))
    return out


def finding_key(job, verdict, inputs, named):
    return f'{job.get("family")}|{verdict}'


def _swap_sides(node):
    import ast
    for n in ast.walk(node):
        if isinstance(n, ast.If) and isinstance(n.test, ast.Name) and n.test.id == 'other_branch_on_left':
            n.body, n.orelse = n.orelse, n.body
            return True
    return False


def _height_check(node):
    import ast
    for n in ast.walk(node):
        if isinstance(n, ast.Compare) and len(n.ops) == 2 and isinstance(n.ops[1], ast.Lt):
            n.ops[1] = ast.LtE()
            return True
    return False


def _always_verified(node):
    import ast
    for n in ast.walk(node):
        if isinstance(n, ast.Assign) and isinstance(n.targets[0], ast.Attribute) and n.targets[0].attr == 'is_verified':
            n.value = ast.Constant(True)
            return True
    return False


CANARIES = [
    dict(name='swapped-concatenation', target='lbry.wallet.ledger:Ledger.get_root_of_merkle_tree', mutate=_swap_sides,
         job=dict(family='genuine', fn='genuine', args=(3,), loop_bound=80, max_depth=40)),
    dict(name='height-off-by-one', target='lbry.wallet.ledger:Ledger.maybe_verify_transaction', mutate=_height_check,
         job=dict(family='verify', fn='verify_flag', args=(1, 3), loop_bound=80, max_depth=40)),
    dict(name='root-not-compared', target='lbry.wallet.ledger:Ledger.maybe_verify_transaction', mutate=_always_verified,
         job=dict(family='verify', fn='verify_flag', args=(3, 3), loop_bound=80, max_depth=40)),
]
