"""C10 - blob exchange, message layer: any fragmentation of an honest response / request is received intact; the server
serves only verified blobs behind an exact header and refuses oversized or malformed requests.

Interpreted from /repo: BlobExchangeClientProtocol.{__init__, data_received, _write}, BlobResponse.deserialize,
_parse_blob_response, the message classes; BlobServerProtocol.{__init__, data_received, handle_request, send_response,
close}, BlobRequest.deserialize.  Blob writer, blobs, blob manager and transport are stubs that record what they are
given (what the real writer does with the bytes is C01)."""
import json

from lbry.blob import MAX_BLOB_SIZE
from lbry.blob_exchange.client import BlobExchangeClientProtocol
from lbry.blob_exchange.serialization import (BlobResponse, BlobAvailabilityResponse, BlobPriceResponse,
                                              BlobDownloadResponse)
from harness.C01 import ModelFuture, ModelLoop, LOOP, VM as C01_VM

LEVEL_TEXT = ('Bounded model checking of the real client receive path (message layer only): the byte stream of an honest '
              'response - the real serialised JSON header followed by a blob body of the announced length - is cut at one or '
              'two solver-chosen positions (inside the JSON, header split from body, header glued to body, inside the body) '
              'and fed to the real data_received; it must raise nothing, resolve the response future once with the announced '
              'hash and length, and hand the writer exactly the body bytes in order.  _write is checked separately for every '
              'announced length, received count and fragment length: it never forwards more than the blob still needs.  Server: the '
              'real serialised request cut at every one / two positions, with the requested blob verified or not, listed as completed '
              'or not, and any sendfile result: one response, availability lists exactly the completed blobs asked for, blob bytes are '
              'sent once and only for a verified blob after a header naming exactly its hash and length, a failed send closes the '
              'connection; requests of 1200 bytes or more and a catalogue of malformed requests close it and serve nothing.  '
              '_download_blob on every combination of response parts (availability absent / empty / right / wrong, rate accepted or '
              'not, blob response absent / error / right / wrong hash, length matching or not, writer accepting or rejecting): the '
              'transfer continues only for the right hash, length and rate; otherwise connection and writer are closed.')
LEVEL_NOTE = ('Trusted: z3, the interpreter (every path replayed natively), stub transport / writer / blob.  The body is filler that '
              'contains no "}", optionally after a JSON-like prefix from a fixed catalogue; other bodies are OUTSIDE this claim, as '
              'are timeouts, keep-alive sequences of several requests, and misbehaving peers beyond the malformed-request catalogue.')
ASSUMPTIONS = ['body content = filler bytes 0x78, optionally preceded by one of a catalogue of JSON-like prefixes (the client '
               're-parses a first body fragment as JSON); other bodies containing "}" are not covered',
               'writer and blob are recording stubs; the response future is the model future of C01']
OUTSIDE = ['bodies containing "}"', 'timeouts (asyncio.wait_for is the identity on an immediately completing stub)', 'several requests on one connection',
           'lying servers that send corrupted, short, excess or unsolicited bytes (the writer side is C01)']

BLOB_HASH = 'ab' * 48


class StubTransport:
    def __init__(self):
        self.closed = False

    def is_closing(self):
        return self.closed

    def close(self):
        self.closed = True

    def get_extra_info(self, what):
        return ('1.2.3.4', 3333)


class StubWriter:
    def __init__(self):
        self.chunks = []
        self.is_closed = False

    def write(self, data):
        self.chunks.append(data)

    def closed(self):
        return self.is_closed

    def close_handle(self):
        self.is_closed = True


class StubBlob:
    blob_hash = BLOB_HASH

    def __init__(self):
        self.length = None

    def set_length(self, length):
        if self.length is None and 0 <= length <= MAX_BLOB_SIZE:
            self.length = length

    def get_length(self):
        return self.length


def make_client(vm):
    C01_VM[0] = vm
    LOOP[0] = ModelLoop()
    p = BlobExchangeClientProtocol(LOOP[0], 10, None)
    p.transport = StubTransport()
    p.peer_address, p.peer_port = '1.2.3.4', 3333
    p.blob = StubBlob()
    p.writer = StubWriter()
    p._response_fut = ModelFuture()
    return p


def header_for(n):
    return BlobResponse([BlobAvailabilityResponse([BLOB_HASH], 'bLbryAddress'), BlobPriceResponse('RATE_ACCEPTED'),
                         BlobDownloadResponse(incoming_blob={'blob_hash': BLOB_HASH, 'length': n})]).serialize()


PREFIXES = [b'', b'{"lbrycrd_address":0}', b'{"error":"x"}', b'{}', b'}', b'{"a":1}', b'[1]}', b'{"incoming_blob":{"error":"e"}}']


def fragmented(vm, n, cuts, window, prefix=0):
    """The honest stream header(n) + body(n) delivered in cuts+1 fragments.  The body is PREFIXES[prefix] followed by
    filler: the catalogue holds byte strings that look like (parts of) protocol JSON."""
    header = header_for(n)
    pre = PREFIXES[prefix]
    body = pre + vm.new_run('body', n - len(pre), n - len(pre), b'x')
    stream = header + body
    total = len(header) + n
    lo, hi = window if window else (0, total)
    points = [0]
    lo, hi = max(lo, 0), min(hi, total)
    for c in range(cuts):
        k = vm.pick('cut', hi - lo + 1) + lo             # a concrete position per path (every position is a path)
        if k < points[-1]:
            return 'ok-skip-unordered'
        points.append(k)
    points.append(total)
    return deliver(vm, n, stream, body, points)


def big_body(vm, n, cuts_in_body):
    """A large body: the first cut at every position of the header (one path each), then cuts at *symbolic* offsets inside
    the body, so the read that completes the header carries any number of body bytes."""
    header = header_for(n)
    body = vm.new_run('body', n, n, b'x')
    stream = header + body
    total = len(header) + n
    points = [0, vm.pick('cut', len(header)) + 1]
    for c in range(cuts_in_body):
        k = vm.new_int('body_cut', 0, n)
        vm.assume(len(header) + k >= points[-1])
        points.append(len(header) + k)
    points.append(total)
    return deliver(vm, n, stream, body, points)


def deliver(vm, n, stream, body, points):
    p = make_client(vm)
    for a, b in zip(points, points[1:]):
        frag = stream[a:b]
        if len(frag) == 0:
            continue
        try:
            p.data_received(frag)
        except Exception as e:
            return 'VIOLATION: data_received raised %s on a fragment of an honest response' % type(e).__name__
        LOOP[0].drain()
    fut = p._response_fut
    if fut is None or fut.state != 'result':
        return 'VIOLATION: the response future was not resolved by an honest response'
    resp = fut.value.get_blob_response()
    if resp is None or resp.blob_hash != BLOB_HASH or resp.length != n:
        return 'VIOLATION: the parsed response does not name the announced hash and length'
    if p.blob.get_length() != n:
        return 'VIOLATION: the announced length was not set on the blob'
    got = b''
    for c in p.writer.chunks:
        got = got + c
    if len(got) != n or not vm.same_bytes(got, body):
        return 'VIOLATION: the writer did not receive exactly the body bytes'
    if p._blob_bytes_received != n:
        return 'VIOLATION: received-bytes counter differs from the body length'
    if p.transport.closed:
        return 'VIOLATION: the connection was closed during an honest transfer'
    return 'ok'


def write_clamp(vm):
    """_write never forwards more than length - received."""
    p = make_client(vm)
    length = vm.new_int('length', 1, MAX_BLOB_SIZE)
    received = vm.new_int('received', 0, MAX_BLOB_SIZE)
    vm.assume(received <= length)
    p.blob.length = length
    p._blob_bytes_received = received
    data = vm.new_run('data', 1, 3 * MAX_BLOB_SIZE, b'x')
    p._write(data)
    room = length - received
    want = vm.ite(len(data) > room, room, len(data))
    sent = 0
    for c in p.writer.chunks:
        sent = sent + len(c)
    if sent != want:
        return 'VIOLATION: _write forwarded more (or less) than the blob still needs'
    if p._blob_bytes_received != received + want:
        return 'VIOLATION: received-bytes counter not advanced by the forwarded amount'
    return 'ok'


# ------------------------------------------------------------------------------------------------ response validation
class VerifiedEvent:
    async def wait(self):
        return True


def validate_response(vm):
    """_download_blob on every combination of response parts a (lying) server can send: the transfer goes on only if the response
    lists exactly the requested blob as available, accepts the rate and announces that blob with the expected length; in every
    other case the connection and the writer are closed and no protocol object is handed back."""
    from lbry.blob_exchange.serialization import BlobErrorResponse
    from lbry.error import InvalidDataError
    p = make_client(vm)
    p.transport = RecordingTransport()
    known_length = (None, 1000)[vm.pick('length_known_in_advance', 2)]
    p.blob.length = known_length
    p.blob.verified = VerifiedEvent()
    parts = []
    avail = vm.pick('availability', 5)           # absent / empty / exactly the blob / another blob / the blob and another
    if avail > 0:
        parts.append(BlobAvailabilityResponse([[], [BLOB_HASH], [OTHER_HASH], [BLOB_HASH, OTHER_HASH]][avail - 1], 'bAddress'))
    price = vm.pick('price', 3)                  # absent / accepted / too low
    if price > 0:
        parts.append(BlobPriceResponse('RATE_ACCEPTED' if price == 1 else 'RATE_TOO_LOW'))
    kind = vm.pick('blob_response', 4)           # absent / error / the blob / another blob
    announced = (1000, 999)[vm.pick('announced_length', 2)]
    if kind == 1:
        parts.append(BlobDownloadResponse(incoming_blob={'error': 'BLOB_UNAVAILABLE'}))
    elif kind > 1:
        parts.append(BlobDownloadResponse(incoming_blob={'blob_hash': BLOB_HASH if kind == 2 else OTHER_HASH, 'length': announced}))
    p._response_fut.set_result(BlobResponse(parts))
    writer_ok = vm.new_bool('writer_accepts_the_bytes')
    writer = p.writer
    writer.finished = ModelFuture()
    if writer_ok:
        writer.finished.set_result(None)
    else:
        writer.finished.set_exception(InvalidDataError('bad blob'))
    transport = p.transport
    try:
        got, proto = vm.await_(p._download_blob())
    except Exception as e:
        return 'VIOLATION: _download_blob raised %s on a server response' % type(e).__name__
    if len(transport.written) != 1:
        return 'VIOLATION: the request was not written exactly once'
    acceptable = price == 1 and kind == 2 and (known_length is None or announced == known_length)
    if acceptable and writer_ok and avail in (1, 2):
        # both are answers of an honest server: it lists the blob only if it is in its completed index, but serves every verified blob
        # (a verified blob outside the index is announced with an empty availability list)
        if proto is not p or transport.closed:
            return 'VIOLATION: a valid response and transfer end with the connection closed'
        return 'ok-downloaded'
    if acceptable and writer_ok and proto is p and not transport.closed:
        return 'ok-downloaded-lenient'       # the right blob is announced; the availability part lists other blobs (a lying server; not required to refuse)
    if proto is not None:
        return 'VIOLATION: the connection is handed back although the response or the transfer was not acceptable'
    if not transport.closed:
        return 'VIOLATION: the connection stays open after an unacceptable response'
    if not writer.is_closed:
        return 'VIOLATION: the blob writer stays open after an unacceptable response'
    return 'ok-refused'


# ------------------------------------------------------------------------------------------------ server side
class StubConnections:
    def __init__(self):
        self.sent = 0

    def received_data(self, peer, n):
        return None

    def sent_data(self, peer, n):
        self.sent = self.sent + n

    def connection_received(self, peer):
        return None

    def incoming_connection_lost(self, peer):
        return None


class ServedBlob:
    def __init__(self, blob_hash, verified, length, send_result, log):
        self.blob_hash, self.verified, self.length, self.send_result, self.log = blob_hash, verified, length, send_result, log

    def get_is_verified(self):
        return self.verified

    async def sendfile(self, protocol):
        self.log.append(('sendfile', self.blob_hash, len(protocol.transport.written)))
        return self.send_result


class StubBlobManager:
    def __init__(self, blobs, completed):
        self.blobs, self.completed_blob_hashes = blobs, completed
        self.connection_manager = StubConnections()

    def get_blob(self, blob_hash, length=None):
        return self.blobs[blob_hash]


class RecordingTransport(StubTransport):
    def __init__(self):
        self.closed = False
        self.written = []

    def write(self, data):
        self.written.append(data)


def make_server(vm, blobs, completed):
    from lbry.blob_exchange.server import BlobServerProtocol
    C01_VM[0] = vm
    LOOP[0] = ModelLoop()
    p = BlobServerProtocol(LOOP[0], StubBlobManager(blobs, completed), 'bServerAddress')
    p.transport = RecordingTransport()
    p.peer_address_and_port = '1.2.3.4:3333'
    return p


OTHER_HASH = 'cd' * 48


def serve(vm, cuts):
    """The real request of a client, cut into fragments; the requested blob is verified or not (symbolic), sendfile reports any
    result: bytes follow only a header naming exactly that hash and length, only for a verified blob; availability lists only
    completed blobs; a failed send closes the connection."""
    from lbry.blob_exchange.serialization import BlobRequest
    log = []
    verified = vm.new_bool('blob_is_verified')
    completed_listed = vm.new_bool('hash_in_completed_set')
    length = (1, 12345, MAX_BLOB_SIZE)[vm.pick('blob_length', 3)]          # concrete: the header is JSON text
    sent = vm.new_int('sendfile_result', -1, MAX_BLOB_SIZE)
    blob = ServedBlob(BLOB_HASH, verified, length, sent, log)
    p = make_server(vm, {BLOB_HASH: blob}, {BLOB_HASH} if completed_listed else {OTHER_HASH})
    raw = BlobRequest.make_request_for_blob_hash(BLOB_HASH).serialize()
    points = [0]
    for c in range(cuts):
        k = vm.pick('cut', len(raw) + 1)
        if k < points[-1]:
            return 'ok-skip-unordered'
        points.append(k)
    points.append(len(raw))
    for a, b in zip(points, points[1:]):
        if a == b:
            continue
        try:
            p.data_received(raw[a:b])
        except Exception as e:
            return 'VIOLATION: the server raised %s on a fragment of an honest request' % type(e).__name__
        LOOP[0].drain()
    if p.buf != b'':
        return 'VIOLATION: request bytes are left in the buffer after a complete request'
    sends = [e for e in log if e[0] == 'sendfile']
    replies = [json.loads(w) for w in p.transport.written]
    if len(replies) != 1:
        return 'VIOLATION: %d responses were written for one request' % len(replies)
    reply = replies[0]
    if reply.get('available_blobs') != ([BLOB_HASH] if completed_listed else []):
        return 'VIOLATION: the availability response does not list exactly the completed blobs that were asked for'
    if verified:
        if reply.get('incoming_blob') != {'blob_hash': BLOB_HASH, 'length': length}:
            return 'VIOLATION: the header does not name exactly the hash and length of the blob being sent'
        if len(sends) != 1 or sends[0][2] != 1:
            return 'VIOLATION: blob bytes are not sent exactly once, after the header'
        if (sent <= 0) != p.transport.closed:
            return 'VIOLATION: a failed send leaves the connection open (or a successful one closes it)'
        return 'ok-served'
    if sends:
        return 'VIOLATION: bytes of a blob that is not verified are sent'
    if 'incoming_blob' in reply and 'error' not in reply['incoming_blob']:
        return 'VIOLATION: a header announces a blob the server does not hold verified'
    if p.transport.closed:
        return 'VIOLATION: the connection is closed although the request was well formed'
    return 'ok-not-held'


class Hang(Exception):
    """An await that can never complete (an event nobody will set while the peer is silent)."""


class ModelEvent:
    def __init__(self):
        self.flag = False

    def set(self):
        self.flag = True

    def clear(self):
        self.flag = False

    def is_set(self):
        return self.flag

    def wait(self):
        return EventWait(self)


class EventWait:
    """Awaiting it returns at once if the event is set; otherwise it times out (under wait_for) or never returns."""

    def __init__(self, event):
        self.event = event
        self.under_timeout = False

    def outcome(self):
        import asyncio
        if self.event.flag:
            return True
        if self.under_timeout:
            raise asyncio.TimeoutError()
        raise Hang()

    def __vm_await__(self, vm):
        return self.outcome()

    def __await__(self):
        return self

    def __iter__(self):
        return self

    def __next__(self):
        raise StopIteration(self.outcome())


def idle(vm, n_requests):
    """One to two complete requests on one connection (each for a blob the server holds verified or not, with any sendfile result), then the
    peer falls silent: the real idle guard (close_on_idle, with a silent peer every wait_for on an unset event times out and a bare wait on an
    unset event never returns) must close the connection - unless a failed send closed it already."""
    from lbry.blob_exchange.serialization import BlobRequest
    log = []
    blobs = {}
    order = []
    for i, h in enumerate((BLOB_HASH, OTHER_HASH)[:n_requests]):
        blobs[h] = ServedBlob(h, vm.new_bool('blob_is_verified'), 1000, vm.new_int('sendfile_result', -1, 1000), log)
        order.append(h)
    p = make_server(vm, blobs, set())
    p.started_transfer, p.transfer_finished = ModelEvent(), ModelEvent()
    wake_between = n_requests > 1 and vm.new_bool('idle_guard_runs_between_the_requests')
    for i, h in enumerate(order):
        try:
            p.data_received(BlobRequest.make_request_for_blob_hash(h).serialize())
        except Exception as e:
            return 'VIOLATION: the server raised %s on an honest request' % type(e).__name__
        LOOP[0].drain()
        if p.transport.closed:
            return 'ok-closed-by-failed-send'
        if i == 0 and wake_between:
            # the guard task gets to run while the second request is on its way: it sees the events of the first request
            if p.started_transfer.is_set():
                p.started_transfer.clear()
                if not p.transfer_finished.is_set():
                    return 'VIOLATION: a started transfer is never reported finished: the idle guard waits forever'
                p.transfer_finished.clear()
    try:
        vm.await_(p.close_on_idle())
    except Hang:
        return 'VIOLATION: the idle guard waits for an event that nothing will set: a silent peer is never disconnected'
    except Exception as e:
        return 'VIOLATION: close_on_idle raised %s' % type(e).__name__
    if not p.transport.closed:
        return 'VIOLATION: the idle guard returned without closing the silent connection'
    return 'ok-closed-idle'


BAD_REQUESTS = [b'{]}', b'\xff\xfe}', b'{"a": 1}', b'{}', b'[1, 2]}', b'{"requested_blob": "x"}{"requested_blob": "y"}', b'}']


def refuse(vm):
    """Oversized or malformed requests: the connection is closed, nothing is served, nothing raises."""
    log = []
    p = make_server(vm, {BLOB_HASH: ServedBlob(BLOB_HASH, True, 10, 10, log)}, {BLOB_HASH})
    kind = vm.pick('kind', len(BAD_REQUESTS) + 1)
    if kind == len(BAD_REQUESTS):
        f1 = vm.new_run('first_fragment', 1, 3000, b'x')          # a TCP read is never empty
        f2 = vm.new_run('second_fragment', 1, 3000, b'x')
        n1, n2 = len(f1), len(f2)
        for f in (f1, f2):
            try:
                p.data_received(f)
            except Exception as e:
                return 'VIOLATION: the server raised %s on an oversized request' % type(e).__name__
        too_big_first = n1 >= 1200
        too_big = too_big_first or (n1 + n2 >= 1200)
        if too_big != p.transport.closed:
            return 'VIOLATION: the request size cap is not applied at 1200 bytes'
        if not too_big and len(p.buf) != n1 + n2:
            return 'VIOLATION: bytes of an incomplete request were dropped'
        if log or p.transport.written:
            return 'VIOLATION: something was served for an incomplete request'
        return 'ok-capped' if too_big else 'ok-buffered'
    try:
        p.data_received(BAD_REQUESTS[kind])
    except Exception as e:
        return 'VIOLATION: the server raised %s on a malformed request' % type(e).__name__
    LOOP[0].drain()
    if not p.transport.closed:
        return 'VIOLATION: a malformed request does not close the connection'
    if log or p.transport.written:
        return 'VIOLATION: something was served for a malformed request'
    return 'ok-closed'


async def _wait_for(aw, timeout):
    if isinstance(aw, EventWait):
        aw.under_timeout = True
    return await aw


def _m_wait_for(vm, a, k):
    if isinstance(a[0], EventWait):
        a[0].under_timeout = True
    return a[0]          # no timeouts in the model: the awaited stub completes at once (or, for an unset event, times out)


def sym_setup(vm, job):
    import asyncio
    vm.register_helper('same_bytes', lambda a, b: vm.truth(vm.eq(a, b)))
    vm.models[id(asyncio.wait_for)] = _m_wait_for


class _Native:
    def __init__(self, nvm):
        self.nvm = nvm

    def __enter__(self):
        import asyncio
        self.nvm.same_bytes = lambda a, b: bytes(a) == bytes(b)
        self.saved = (LOOP[0], C01_VM[0], asyncio.wait_for)
        asyncio.wait_for = _wait_for

    def __exit__(self, *a):
        import asyncio
        LOOP[0], C01_VM[0], asyncio.wait_for = self.saved


def native_setup(nvm, job):
    return _Native(nvm)


def jobs(tier):
    out = []
    for n in ((1, 20) if tier == 'quick' else (1, 20, 300)):
        out.append(dict(name=f'fragmented-1cut-body{n}', family='fragment', fn='fragmented', args=(n, 1, None), loop_bound=400, max_depth=60,
                        cost=300, bounds=dict(body_bytes=n, cuts=1, positions='every position of the stream'), must_reach=('ok',)))
        hl = len(header_for(n))
        out.append(dict(name=f'fragmented-2cuts-near-boundary-body{n}', family='fragment', fn='fragmented', args=(n, 2, (hl - 3, hl + 3)),
                        loop_bound=400, max_depth=60, cost=300,
                        bounds=dict(body_bytes=n, cuts=2, positions='both within 3 bytes of the header/body boundary'), must_reach=('ok',)))
    for i in range(1, len(PREFIXES)):
        n = 40
        hl = len(header_for(n))
        out.append(dict(name=f'json-like-body-{i}', family='json-like', fn='fragmented', args=(n, 2, (hl - 2, hl + len(PREFIXES[i]) + 2), i),
                        loop_bound=400, max_depth=60, cost=300,
                        bounds=dict(body='%r + filler' % PREFIXES[i], cuts=2, positions='around the header/body boundary and the JSON-like prefix'),
                        must_reach=('ok',)))
    for n, k in (((2 ** 21, 1),) if tier == 'quick' else ((2 ** 21, 1), (5000, 2), (2 ** 21, 2))):
        out.append(dict(name=f'big-body-{n}-{k}cuts', family='fragment', fn='big_body', args=(n, k), loop_bound=400, max_depth=60,
                        cost=3000 * k, bounds=dict(body_bytes=n, cuts=f'1 at every header position + {k} at symbolic offsets in the body'),
                        must_reach=('ok',)))
    if tier == 'thorough':
        out.append(dict(name='fragmented-2cuts-body20', family='fragment', fn='fragmented', args=(20, 2, None), loop_bound=400, max_depth=60,
                        cost=30000, bounds=dict(body_bytes=20, cuts=2, positions='every pair of positions'), must_reach=('ok',)))
    for cuts in ((1,) if tier == 'quick' else (1, 2)):
        out.append(dict(name=f'serve-{cuts}cuts', family='serve', fn='serve', args=(cuts,), loop_bound=400, max_depth=60, cost=600 * 300 ** (cuts - 1),
                        bounds=dict(request='the real serialised client request', cuts=f'{cuts} at every position',
                                    blob='verified or not, in the completed set or not, length 1 / 12345 / 2 MiB, any sendfile result'),
                        must_reach=('ok-served', 'ok-not-held')))
    for n in ((1, 2) if tier == 'quick' else (1, 2)):
        out.append(dict(name=f'idle-after-{n}-requests', family='idle', fn='idle', args=(n,), loop_bound=400, max_depth=60, cost=50 * n,
                        bounds=dict(requests=n, blobs='verified or not, any sendfile result', then='the peer is silent'),
                        must_reach=('ok-closed-idle',)))
    out.append(dict(name='refuse-bad-requests', family='serve', fn='refuse', args=(), loop_bound=400, max_depth=60, cost=50,
                    bounds=dict(malformed='catalogue of %d byte strings' % len(BAD_REQUESTS), oversized='two fragments of 1..3000 bytes'),
                    must_reach=('ok-capped', 'ok-buffered', 'ok-closed')))
    out.append(dict(name='validate-response', family='validate', fn='validate_response', args=(), loop_bound=400, max_depth=60, cost=500,
                    bounds=dict(availability='absent / empty / the blob / another / both', price='absent / accepted / too low',
                                blob_response='absent / error / the blob / another blob', length='known or not, announced equal or not',
                                writer='accepts or rejects the bytes'), must_reach=('ok-downloaded', 'ok-refused')))
    out.append(dict(name='write-clamp', family='write', fn='write_clamp', args=(), loop_bound=100, max_depth=60, cost=10,
                    bounds=dict(length='1..2 MiB', received='0..length', fragment='1..6 MiB'), must_reach=('ok',)))
    return out


def finding_key(job, verdict, inputs, named):
    return f'{job.get("family")}|{verdict}'


def _no_clamp(node):
    import ast
    for n in ast.walk(node):
        if isinstance(n, ast.If) and isinstance(n.test, ast.Compare) and 'len(data)' in ast.unparse(n.test):
            n.test = ast.Constant(False)
            return True
    return False


def _buf_not_reset(node):
    import ast
    for n in ast.walk(node):
        if isinstance(n, ast.If) and n.orelse and isinstance(n.orelse[0], ast.Assign) and ast.unparse(n.orelse[0]).startswith('self.buf = '):
            n.orelse = [ast.Pass()]
            return True
    return False


def _serve_unverified(node):
    import ast
    for n in ast.walk(node):
        if isinstance(n, ast.If) and isinstance(n.test, ast.Call) and isinstance(n.test.func, ast.Attribute) \
                and n.test.func.attr == 'get_is_verified':
            n.test = ast.Constant(True)
            return True
    return False


def _cap_off_by_one(node):
    import ast
    for n in ast.walk(node):
        if isinstance(n, ast.Compare) and isinstance(n.ops[0], ast.GtE) and isinstance(n.comparators[0], ast.Name) \
                and n.comparators[0].id == 'MAX_REQUEST_SIZE':
            n.ops[0] = ast.Gt()
            return True
    return False


def _length_mismatch_accepted(node):
    import ast
    for n in ast.walk(node):
        if isinstance(n, ast.If) and 'self.blob.length != blob_response.length' in ast.unparse(n.test):
            n.test = ast.Constant(False)
            return True
    return False


CANARIES = [
    dict(name='client-accepts-wrong-length', target='lbry.blob_exchange.client:BlobExchangeClientProtocol._download_blob',
         mutate=_length_mismatch_accepted, job=dict(family='validate', fn='validate_response', args=(), loop_bound=400, max_depth=60)),
    dict(name='server-sends-unverified-blob', target='lbry.blob_exchange.server:BlobServerProtocol.handle_request', mutate=_serve_unverified,
         job=dict(family='serve', fn='serve', args=(1,), loop_bound=400, max_depth=60)),
    dict(name='request-cap-off-by-one', target='lbry.blob_exchange.server:BlobServerProtocol.data_received', mutate=_cap_off_by_one,
         job=dict(family='serve', fn='refuse', args=(), loop_bound=400, max_depth=60)),
    dict(name='write-not-clamped', target='lbry.blob_exchange.client:BlobExchangeClientProtocol._write', mutate=_no_clamp,
         job=dict(family='write', fn='write_clamp', args=(), loop_bound=100, max_depth=60)),
]
