"""C10 - blob exchange, client message layer: any fragmentation of an honest response is received intact.

Interpreted from /repo: BlobExchangeClientProtocol.{__init__, data_received, _write}, BlobResponse.deserialize,
_parse_blob_response, the response message classes.  The blob writer and blob are stubs that record what they are
given (what the real writer does with the bytes is C01)."""
import json

from lbry.blob import MAX_BLOB_SIZE
from lbry.blob_exchange.client import BlobExchangeClientProtocol
from lbry.blob_exchange.serialization import (BlobResponse, BlobAvailabilityResponse, BlobPriceResponse,
                                              BlobDownloadResponse)
from harness.C01 import ModelFuture, ModelLoop, LOOP, VM as C01_VM

LEVEL_TEXT = ('Bounded model checking of the real client receive path (message layer only): the byte stream of an honest '
              'response - the real serialised JSON header followed by a blob body of the announced length - is cut at one or '
              'two solver-chosen positions (inside the JSON, header split from body, header glued to body, inside the body) '
              'and fed to the real data_received; it must raise nothing, resolve the response future once with the announced '
              'hash and length, and hand the writer exactly the body bytes in order.  _write is checked separately for every '
              'announced length, received count and fragment length: it never forwards more than the blob still needs.')
LEVEL_NOTE = ('Trusted: z3, the interpreter (every path replayed natively), stub transport / writer / blob.  The body is filler that '
              'contains no "}", optionally after a JSON-like prefix from a fixed catalogue; other bodies are OUTSIDE this claim, as '
              'are the server side, timeouts, keep-alive sequences of several requests, and every misbehaving-peer scenario.')
ASSUMPTIONS = ['body content = filler bytes 0x78, optionally preceded by one of a catalogue of JSON-like prefixes (the client '
               're-parses a first body fragment as JSON); other bodies containing "}" are not covered',
               'writer and blob are recording stubs; the response future is the model future of C01']
OUTSIDE = ['bodies containing "}"', 'server protocol', 'timeouts and connection closing', 'several requests on one connection',
           'lying peers (wrong hash/length, corrupted, short, excess or unsolicited bytes, malformed or oversized JSON)']

BLOB_HASH = 'ab' * 48


class StubTransport:
    def __init__(self):
        self.closed = False

    def is_closing(self):
        return self.closed

    def close(self):
        self.closed = True

    def get_extra_info(self, what):
        return ('1.2.3.4', 3333)


class StubWriter:
    def __init__(self):
        self.chunks = []
        self.is_closed = False

    def write(self, data):
        self.chunks.append(data)

    def closed(self):
        return self.is_closed

    def close_handle(self):
        self.is_closed = True


class StubBlob:
    blob_hash = BLOB_HASH

    def __init__(self):
        self.length = None

    def set_length(self, length):
        if self.length is None and 0 <= length <= MAX_BLOB_SIZE:
            self.length = length

    def get_length(self):
        return self.length


def make_client(vm):
    C01_VM[0] = vm
    LOOP[0] = ModelLoop()
    p = BlobExchangeClientProtocol(LOOP[0], 10, None)
    p.transport = StubTransport()
    p.peer_address, p.peer_port = '1.2.3.4', 3333
    p.blob = StubBlob()
    p.writer = StubWriter()
    p._response_fut = ModelFuture()
    return p


def header_for(n):
    return BlobResponse([BlobAvailabilityResponse([BLOB_HASH], 'bLbryAddress'), BlobPriceResponse('RATE_ACCEPTED'),
                         BlobDownloadResponse(incoming_blob={'blob_hash': BLOB_HASH, 'length': n})]).serialize()


PREFIXES = [b'', b'{"lbrycrd_address":0}', b'{"error":"x"}', b'{}', b'}', b'{"a":1}', b'[1]}', b'{"incoming_blob":{"error":"e"}}']


def fragmented(vm, n, cuts, window, prefix=0):
    """The honest stream header(n) + body(n) delivered in cuts+1 fragments.  The body is PREFIXES[prefix] followed by
    filler: the catalogue holds byte strings that look like (parts of) protocol JSON."""
    header = header_for(n)
    pre = PREFIXES[prefix]
    body = pre + vm.new_run('body', n - len(pre), n - len(pre), b'x')
    stream = header + body
    total = len(header) + n
    lo, hi = window if window else (0, total)
    points = [0]
    lo, hi = max(lo, 0), min(hi, total)
    for c in range(cuts):
        k = vm.pick('cut', hi - lo + 1) + lo             # a concrete position per path (every position is a path)
        if k < points[-1]:
            return 'ok-skip-unordered'
        points.append(k)
    points.append(total)
    return deliver(vm, n, stream, body, points)


def big_body(vm, n, cuts_in_body):
    """A large body: the first cut at every position of the header (one path each), then cuts at *symbolic* offsets inside
    the body, so the read that completes the header carries any number of body bytes."""
    header = header_for(n)
    body = vm.new_run('body', n, n, b'x')
    stream = header + body
    total = len(header) + n
    points = [0, vm.pick('cut', len(header)) + 1]
    for c in range(cuts_in_body):
        k = vm.new_int('body_cut', 0, n)
        vm.assume(len(header) + k >= points[-1])
        points.append(len(header) + k)
    points.append(total)
    return deliver(vm, n, stream, body, points)


def deliver(vm, n, stream, body, points):
    p = make_client(vm)
    for a, b in zip(points, points[1:]):
        frag = stream[a:b]
        if len(frag) == 0:
            continue
        try:
            p.data_received(frag)
        except Exception as e:
            return 'VIOLATION: data_received raised %s on a fragment of an honest response' % type(e).__name__
        LOOP[0].drain()
    fut = p._response_fut
    if fut is None or fut.state != 'result':
        return 'VIOLATION: the response future was not resolved by an honest response'
    resp = fut.value.get_blob_response()
    if resp is None or resp.blob_hash != BLOB_HASH or resp.length != n:
        return 'VIOLATION: the parsed response does not name the announced hash and length'
    if p.blob.get_length() != n:
        return 'VIOLATION: the announced length was not set on the blob'
    got = b''
    for c in p.writer.chunks:
        got = got + c
    if len(got) != n or not vm.same_bytes(got, body):
        return 'VIOLATION: the writer did not receive exactly the body bytes'
    if p._blob_bytes_received != n:
        return 'VIOLATION: received-bytes counter differs from the body length'
    if p.transport.closed:
        return 'VIOLATION: the connection was closed during an honest transfer'
    return 'ok'


def write_clamp(vm):
    """_write never forwards more than length - received."""
    p = make_client(vm)
    length = vm.new_int('length', 1, MAX_BLOB_SIZE)
    received = vm.new_int('received', 0, MAX_BLOB_SIZE)
    vm.assume(received <= length)
    p.blob.length = length
    p._blob_bytes_received = received
    data = vm.new_run('data', 1, 3 * MAX_BLOB_SIZE, b'x')
    p._write(data)
    room = length - received
    want = vm.ite(len(data) > room, room, len(data))
    sent = 0
    for c in p.writer.chunks:
        sent = sent + len(c)
    if sent != want:
        return 'VIOLATION: _write forwarded more (or less) than the blob still needs'
    if p._blob_bytes_received != received + want:
        return 'VIOLATION: received-bytes counter not advanced by the forwarded amount'
    return 'ok'


def sym_setup(vm, job):
    vm.register_helper('same_bytes', lambda a, b: vm.truth(vm.eq(a, b)))


class _Native:
    def __init__(self, nvm):
        self.nvm = nvm

    def __enter__(self):
        self.nvm.same_bytes = lambda a, b: bytes(a) == bytes(b)
        self.saved = (LOOP[0], C01_VM[0])

    def __exit__(self, *a):
        LOOP[0], C01_VM[0] = self.saved


def native_setup(nvm, job):
    return _Native(nvm)


def jobs(tier):
    out = []
    for n in ((1, 20) if tier == 'quick' else (1, 20, 300)):
        out.append(dict(name=f'fragmented-1cut-body{n}', family='fragment', fn='fragmented', args=(n, 1, None), loop_bound=400, max_depth=60,
                        cost=300, bounds=dict(body_bytes=n, cuts=1, positions='every position of the stream'), must_reach=('ok',)))
        hl = len(header_for(n))
        out.append(dict(name=f'fragmented-2cuts-near-boundary-body{n}', family='fragment', fn='fragmented', args=(n, 2, (hl - 3, hl + 3)),
                        loop_bound=400, max_depth=60, cost=300,
                        bounds=dict(body_bytes=n, cuts=2, positions='both within 3 bytes of the header/body boundary'), must_reach=('ok',)))
    for i in range(1, len(PREFIXES)):
        n = 40
        hl = len(header_for(n))
        out.append(dict(name=f'json-like-body-{i}', family='json-like', fn='fragmented', args=(n, 2, (hl - 2, hl + len(PREFIXES[i]) + 2), i),
                        loop_bound=400, max_depth=60, cost=300,
                        bounds=dict(body='%r + filler' % PREFIXES[i], cuts=2, positions='around the header/body boundary and the JSON-like prefix'),
                        must_reach=('ok',)))
    for n, k in (((2 ** 21, 1),) if tier == 'quick' else ((2 ** 21, 1), (5000, 2), (2 ** 21, 2))):
        out.append(dict(name=f'big-body-{n}-{k}cuts', family='fragment', fn='big_body', args=(n, k), loop_bound=400, max_depth=60,
                        cost=3000 * k, bounds=dict(body_bytes=n, cuts=f'1 at every header position + {k} at symbolic offsets in the body'),
                        must_reach=('ok',)))
    if tier == 'thorough':
        out.append(dict(name='fragmented-2cuts-body20', family='fragment', fn='fragmented', args=(20, 2, None), loop_bound=400, max_depth=60,
                        cost=30000, bounds=dict(body_bytes=20, cuts=2, positions='every pair of positions'), must_reach=('ok',)))
    out.append(dict(name='write-clamp', family='write', fn='write_clamp', args=(), loop_bound=100, max_depth=60, cost=10,
                    bounds=dict(length='1..2 MiB', received='0..length', fragment='1..6 MiB'), must_reach=('ok',)))
    return out


def finding_key(job, verdict, inputs, named):
    return f'{job.get("family")}|{verdict}'


def _no_clamp(node):
    import ast
    for n in ast.walk(node):
        if isinstance(n, ast.If) and isinstance(n.test, ast.Compare) and 'len(data)' in ast.unparse(n.test):
            n.test = ast.Constant(False)
            return True
    return False


def _buf_not_reset(node):
    import ast
    for n in ast.walk(node):
        if isinstance(n, ast.If) and n.orelse and isinstance(n.orelse[0], ast.Assign) and ast.unparse(n.orelse[0]).startswith('self.buf = '):
            n.orelse = [ast.Pass()]
            return True
    return False


CANARIES = [
    dict(name='write-not-clamped', target='lbry.blob_exchange.client:BlobExchangeClientProtocol._write', mutate=_no_clamp,
         job=dict(family='write', fn='write_clamp', args=(), loop_bound=100, max_depth=60)),
]
