"""C17 - DHT wire codec: lossless for protocol messages, total on garbage.

Interpreted from /repo: bencoding._bencode/_bdecode/bencode/bdecode, datagram._decode_datagram/decode_datagram and the
datagram classes, make/decode_compact_address, KademliaProtocol.datagram_received (real method on a stub protocol
object whose peer manager and handle_* methods only record calls)."""
from lbry.dht import constants
from lbry.dht.error import DecodeError
from lbry.dht.protocol.protocol import KademliaProtocol
from lbry.dht.serialization.bencoding import bencode, bdecode
from lbry.dht.serialization.datagram import (RequestDatagram, ResponseDatagram, ErrorDatagram, decode_datagram,
                                             make_compact_address, decode_compact_address,
                                             REQUEST_TYPE, RESPONSE_TYPE, ERROR_TYPE)

LEVEL_TEXT = ('Bounded model checking of the real decoder/encoder source: every byte string up to the bound, every '
              'truncation and every 1-byte (thorough: 2-byte) mutation of eight valid datagram kinds with symbolic '
              'replacement bytes is pushed symbolically through the real datagram_received; the solver decides every '
              'branch, so within the bounds no input class is sampled or skipped.  Round trips use symbolic ids, ports, '
              'pages and arbitrary Unicode error text against an independent bencode reader.')
LEVEL_NOTE = ('Trusted: z3, the interpreter and its library models (validated on every path by native replay against the '
              'real code), the stub protocol object (handlers only record calls).  Outside: longer fully-arbitrary '
              'datagrams, 3-byte mutations, handler behaviour on well-formed hostile field values.')

ASSUMPTIONS = [
    'the protocol object is a stub: peer_manager.report_failure and handle_request/response/error_datagram only '
    'record that they were called (what the request handlers do with well-formed field values is outside the claim)',
    'logging calls are no-op sinks (their arguments are still evaluated)',
    'a loop or recursion deeper than input-length+slack is decided by a native replay under a watchdog',
]
OUTSIDE = [
    'datagrams longer than the fully-symbolic bound that are not within 1 (quick) / 2 (thorough) byte mutations or a '
    'truncation of a valid datagram',
    'behaviour of the rpc handlers on well-formed but hostile field values (only their precondition is checked: both ids are byte strings of the protocol length)',
]


# ------------------------------------------------------------------------------------------------ stubs
class PM:
    def __init__(self):
        self.failures = []

    def report_failure(self, address, port):
        self.failures.append((address, port))


_LOOP = [None]


def real_protocol():
    """A real KademliaProtocol object built by the real constructor (so that every field the real datagram_received may use exists),
    never connected to a transport."""
    import asyncio
    from lbry.dht.peer import PeerManager
    if _LOOP[0] is None:
        _LOOP[0] = asyncio.new_event_loop()
    return KademliaProtocol(_LOOP[0], PeerManager(_LOOP[0]), b'\x01' * 48, '4.4.4.4', 4444, 3333)


class Recorder:
    def __init__(self, log, kind):
        self.log, self.kind = log, kind

    def __call__(self, address, message):
        self.log.append((self.kind, message))


def StubProtocol():
    """The real protocol object; its peer manager and the three rpc handlers are replaced by recorders."""
    proto = MAKE[0]()
    proto.peer_manager = PM()
    proto.handled = []
    proto.handle_request_datagram = Recorder(proto.handled, 'request')
    proto.handle_response_datagram = Recorder(proto.handled, 'response')
    proto.handle_error_datagram = Recorder(proto.handled, 'error')
    return proto


MAKE = [real_protocol]


def sym_setup(vm, job):
    vm.models[id(real_protocol)] = lambda vm_, a, k: real_protocol()       # built natively: nothing symbolic goes in


def check(proto, data):
    try:
        proto.datagram_received(data, ('1.2.3.4', 4444))
    except Exception as e:
        return 'VIOLATION: %s escapes datagram_received' % type(e).__name__
    if len(proto.handled) + len(proto.peer_manager.failures) != 1:
        return 'VIOLATION: neither handled nor reported exactly once'
    if proto.peer_manager.failures:
        if proto.peer_manager.failures[0] != ('1.2.3.4', 4444):
            return 'VIOLATION: failure recorded for the wrong sender'
        # the same sender repeats the datagram: it is an error result every time, not only the first time
        try:
            proto.datagram_received(data, ('1.2.3.4', 4444))
        except Exception as e:
            return 'VIOLATION: %s escapes datagram_received when a malformed datagram is repeated' % type(e).__name__
        if proto.handled or proto.peer_manager.failures != [('1.2.3.4', 4444), ('1.2.3.4', 4444)]:
            return 'VIOLATION: a repeated malformed datagram is not recorded as a failure of its sender again'
        return 'ok-dropped'
    # what reaches a handler is a well-formed message: the handlers use both ids as dictionary keys (sent_messages, routing table,
    # the lru-cached make_kademlia_peer), so an id that is not a byte string of the protocol's length raises out of the real handler
    message = proto.handled[0][1]
    if type(message.rpc_id) is not bytes or len(message.rpc_id) != 20:
        return 'VIOLATION: a datagram whose rpc id is not a 20-byte string is handed to the handler (unhashable ids raise TypeError there)'
    if type(message.node_id) is not bytes or len(message.node_id) != 48:
        return 'VIOLATION: a datagram whose node id is not a 48-byte string is handed to the handler (unhashable ids raise TypeError there)'
    return 'ok-' + proto.handled[0][0]


# ------------------------------------------------------------------------------------------------ valid datagrams
NODE_ID = bytes(range(1, 49))
RPC_ID = bytes(range(101, 121))
KEY = bytes(range(150, 198))
TOKEN = bytes(range(200, 248))


def contact(i):
    return bytes(make_compact_address(bytes([i]) * 48, '10.0.%d.7' % i, 4000 + i))


def valid_datagram(kind):
    if kind == 'ping':
        return RequestDatagram.make_ping(NODE_ID, RPC_ID).bencode()
    if kind == 'store':
        return RequestDatagram.make_store(NODE_ID, KEY, TOKEN, 3333, RPC_ID).bencode()
    if kind == 'findNode':
        return RequestDatagram.make_find_node(NODE_ID, KEY, RPC_ID).bencode()
    if kind == 'findValue':
        return RequestDatagram.make_find_value(NODE_ID, KEY, RPC_ID, 2).bencode()
    if kind == 'pong':
        return ResponseDatagram(RESPONSE_TYPE, RPC_ID, NODE_ID, b'pong').bencode()
    if kind == 'contacts':
        return ResponseDatagram(RESPONSE_TYPE, RPC_ID, NODE_ID, [[b'\x07' * 48, b'1.2.3.4', 4444],
                                                                 [b'\x08' * 48, b'1.2.3.5', 4445]]).bencode()
    if kind == 'value':
        return ResponseDatagram(RESPONSE_TYPE, RPC_ID, NODE_ID, {
            b'token': TOKEN, b'p': 3, KEY: [contact(1), contact(2)], b'contacts': [[b'\x07' * 48, b'1.2.3.4', 4444]],
            b'protocolVersion': 1}).bencode()
    if kind == 'error':
        return ErrorDatagram(ERROR_TYPE, RPC_ID, NODE_ID, b'ValueError', b'bad token').bencode()
    raise ValueError(kind)


KINDS = ['ping', 'store', 'findNode', 'findValue', 'pong', 'contacts', 'value', 'error']


# ------------------------------------------------------------------------------------------------ totality
def garbage(vm, n, first):
    """Every byte string of length n (first byte restricted to one class so that classes run in parallel)."""
    data = vm.new_bytes('d', n)
    if n and first is not None:
        b0 = data[0]
        if first == 'other':
            vm.assume(b0 != 105)
            vm.assume(b0 != 108)
            vm.assume(b0 != 100)
        else:
            vm.assume(b0 == ord(first))
    return check(StubProtocol(), data)


def mutate(vm, kind, nmut, lo, hi):
    """A valid datagram with `nmut` bytes at solver-chosen positions in [lo, hi) replaced by arbitrary bytes."""
    data = valid_datagram(kind)
    last = lo - 1
    for m in range(nmut):
        k = vm.pick('pos', hi - lo) + lo
        if k <= last:
            return 'ok-skip-unordered'
        last = k
        b = vm.new_int('byte', 0, 255)
        vm.assume(b != data[k])
        data = data[:k] + bytes([b]) + data[k + 1:]
    return check(StubProtocol(), data)


def typed_field(vm, kind):
    """A valid datagram whose rpc id or node id is replaced by a bencoded container with as many items as the id has bytes
    (or one fewer / more): a list of integers, a list of strings, a list of lists, or a dictionary."""
    data = valid_datagram(kind)
    which = vm.pick('field', 2)
    ident = (RPC_ID, NODE_ID)[which]
    encoded = b'%d:' % len(ident) + ident
    at = data.index(encoded)
    n = len(ident) + vm.pick('items_minus_length_plus_one', 3) - 1
    shape = vm.pick('replacement', 4)
    first = vm.new_int('first_digit', 48, 57)
    if shape == 0:
        body = b'l' + b'i' + bytes([first]) + b'e' + b'i7e' * (n - 1) + b'e'
    elif shape == 1:
        body = b'l' + b'1:' + bytes([first]) + b'1:x' * (n - 1) + b'e'
    elif shape == 2:
        body = b'l' + b'le' * n + b'e'
    else:
        body = b'd' + b''.join(b'2:%02di1e' % j for j in range(n)) + b'e'
    return check(StubProtocol(), data[:at] + body + data[at + len(encoded):])


def truncate(vm, kind):
    data = valid_datagram(kind)
    k = vm.pick('cut', len(data))
    return check(StubProtocol(), data[:k])


def nested(vm, opener, depth, tail):
    """Deeply nested input: `depth` list/dict openers followed by `tail` arbitrary bytes."""
    data = opener * depth + vm.new_bytes('t', tail)
    return check(StubProtocol(), data)


# ------------------------------------------------------------------------------------------------ lossless
def ref_bdecode(data, i):
    """Independent bencode reader (BEP-3): returns (value, next index)."""
    c = data[i]
    if c == 105:                                  # i<digits>e
        j = i + 1
        neg = False
        if data[j] == 45:
            neg = True
            j += 1
        v = 0
        nd = 0
        while data[j] != 101:
            if not 48 <= data[j] <= 57:
                raise ValueError('bad int')
            v = v * 10 + (data[j] - 48)
            j += 1
            nd += 1
        if nd == 0:
            raise ValueError('empty int')
        return (-v if neg else v), j + 1
    if c == 108:
        out = []
        i += 1
        while data[i] != 101:
            v, i = ref_bdecode(data, i)
            out.append(v)
        return out, i + 1
    if c == 100:
        out = []
        i += 1
        while data[i] != 101:
            k, i = ref_bdecode(data, i)
            v, i = ref_bdecode(data, i)
            out.append((k, v))
        return ('dict', out), i + 1
    n = 0
    nd = 0
    while data[i] != 58:
        if not 48 <= data[i] <= 57:
            raise ValueError('bad length')
        n = n * 10 + (data[i] - 48)
        i += 1
        nd += 1
    if nd == 0:
        raise ValueError('no length')
    i += 1
    if i + n > len(data):
        raise ValueError('short string')
    return data[i:i + n], i + n


def same_structure(ref, got):
    """reference reader's value == lbry bdecode's value (dicts compared as ordered pair lists)."""
    if isinstance(ref, tuple) and len(ref) == 2 and ref[0] == 'dict':
        if not isinstance(got, dict) or len(got) != len(ref[1]):
            return False
        for k, v in ref[1]:
            if k not in got or not same_structure(v, got[k]):
                return False
        return True
    if isinstance(ref, list):
        if not isinstance(got, list) or len(got) != len(ref):
            return False
        for a, b in zip(ref, got):
            if not same_structure(a, b):
                return False
        return True
    if isinstance(ref, bool) or isinstance(got, bool):
        return False
    if isinstance(ref, int):
        return isinstance(got, int) and ref == got
    return isinstance(got, bytes) and ref == got


def codec_agrees(raw):
    ref, end = ref_bdecode(raw, 0)
    if end != len(raw):
        return False
    return same_structure(ref, bdecode(raw))


def rt_request(vm, kind):
    node_id = vm.new_bytes('node_id', 48)
    rpc_id = vm.new_bytes('rpc_id', 20)
    if kind == 'ping':
        msg = RequestDatagram.make_ping(node_id, rpc_id)
        want_args = [{b'protocolVersion': 1}]
    elif kind == 'store':
        key = vm.new_bytes('blob', 48)
        token = vm.new_bytes('token', 48)
        port = vm.new_int('port', 1, 65535)
        msg = RequestDatagram.make_store(node_id, key, token, port, rpc_id)
        want_args = [key, token, port, node_id, 0, {b'protocolVersion': 1}]
    elif kind == 'findNode':
        key = vm.new_bytes('key', 48)
        msg = RequestDatagram.make_find_node(node_id, key, rpc_id)
        want_args = [key, {b'protocolVersion': 1}]
    else:
        key = vm.new_bytes('key', 48)
        page = vm.new_int('page', 0, 10 ** 6)
        msg = RequestDatagram.make_find_value(node_id, key, rpc_id, page)
        want_args = [key, {b'p': page, b'protocolVersion': 1}]
    raw = msg.bencode()
    back = decode_datagram(raw)
    if not isinstance(back, RequestDatagram):
        return 'VIOLATION: request decodes to another message class'
    if back.packet_type != REQUEST_TYPE or back.rpc_id != rpc_id or back.node_id != node_id:
        return 'VIOLATION: request header fields differ after the round trip'
    if back.method != kind.encode() or back.args != want_args:
        return 'VIOLATION: request method/arguments differ after the round trip'
    if not codec_agrees(raw):
        return 'VIOLATION: reference bencode reader disagrees on the request datagram'
    if back.bencode() != raw:
        return 'VIOLATION: re-encoding the decoded request gives other bytes'
    return 'ok'


def rt_response(vm, shape, n):
    node_id = vm.new_bytes('node_id', 48)
    rpc_id = vm.new_bytes('rpc_id', 20)
    if shape == 'pong':
        resp = b'pong'
    elif shape == 'contacts':
        resp = []
        for i in range(n):
            resp.append([vm.new_bytes('cid', 48), b'10.1.2.%d' % i, vm.new_int('cport', 1, 65535)])
    else:
        # compact addresses are opaque 54-byte strings at this layer (their own round trip is the job rt_compact)
        peers = [vm.new_bytes('peer', 54) for i in range(n)]
        if shape == 'value-key':
            key, pages = vm.new_bytes('key', 48), 3          # arbitrary key: every sort position among the fixed keys
        else:
            key, pages = KEY, vm.new_int('pages', 0, 10 ** 6)
        resp = {b'token': vm.new_bytes('token', 48), b'p': pages, key: peers,
                b'contacts': [[vm.new_bytes('cid', 48), b'10.1.2.3', vm.new_int('cport', 1, 65535)]],
                b'protocolVersion': 1}
    msg = ResponseDatagram(RESPONSE_TYPE, rpc_id, node_id, resp)
    raw = msg.bencode()
    back = decode_datagram(raw)
    if not isinstance(back, ResponseDatagram):
        return 'VIOLATION: response decodes to another message class'
    if back.packet_type != RESPONSE_TYPE or back.rpc_id != rpc_id or back.node_id != node_id:
        return 'VIOLATION: response header fields differ after the round trip'
    if back.response != resp:
        return 'VIOLATION: response payload differs after the round trip'
    if not codec_agrees(raw):
        return 'VIOLATION: reference bencode reader disagrees on the response datagram'
    return 'ok'


def rt_error(vm, ncp, lo, hi):
    node_id = vm.new_bytes('node_id', 48)
    rpc_id = vm.new_bytes('rpc_id', 20)
    text = vm.new_str('text', ncp, lo, hi)
    for ch in text:
        vm.assume(not 0xD800 <= ord(ch) <= 0xDFFF)          # not encodable: no such str reaches the wire
    msg = ErrorDatagram(ERROR_TYPE, rpc_id, node_id, b'ValueError', text.encode())
    raw = msg.bencode()
    try:
        back = decode_datagram(raw)
    except Exception:
        return 'VIOLATION: error datagram does not decode back'
    if not isinstance(back, ErrorDatagram):
        return 'VIOLATION: error decodes to another message class'
    if back.rpc_id != rpc_id or back.node_id != node_id or back.exception_type != 'ValueError':
        return 'VIOLATION: error header fields differ after the round trip'
    if back.response != text:
        return 'VIOLATION: error text differs after the round trip'
    if not codec_agrees(raw):
        return 'VIOLATION: reference bencode reader disagrees on the error datagram'
    return 'ok'


def rt_long_value(vm, lo, hi):
    """A byte string of every length lo..hi (an opaque run) inside a dictionary and a list: encode, decode, compare."""
    value = vm.new_run('value', lo, hi, b'v')
    key = vm.new_bytes('key', 1)
    vm.assume(key != b'z')
    try:
        raw = bencode({key: [value, 7], b'z': value})
    except Exception as e:
        return 'VIOLATION: encoding a byte string raised %s' % type(e).__name__
    try:
        back = bdecode(raw)
    except Exception as e:
        return 'VIOLATION: an encoded byte string of some length does not decode back (%s)' % type(e).__name__
    if not isinstance(back, dict) or len(back) != 2:
        return 'VIOLATION: the decoded dictionary has other keys'
    items = back.get(bytes(key)) if not isinstance(back.get(b'z'), list) else None
    if not isinstance(items, list) or len(items) != 2 or items[0] != value or items[1] != 7 or back[b'z'] != value:
        return 'VIOLATION: a byte string differs after the round trip'
    return 'ok'


def rt_compact(vm):
    ip = [vm.new_int('oct', 0, 255) for _ in range(4)]
    port = vm.new_int('port', -5, 70000)
    pid = vm.new_bytes('pid', 48)
    addr = '%d.%d.%d.%d' % (ip[0], ip[1], ip[2], ip[3])
    try:
        compact = make_compact_address(pid, addr, port)
    except ValueError:
        if 0 < port < 65536:
            return 'VIOLATION: valid compact address refused'
        return 'ok-refused'
    if not 0 < port < 65536:
        return 'VIOLATION: invalid port accepted'
    if len(compact) != 54:
        return 'VIOLATION: compact address length'
    try:
        back = decode_compact_address(bytes(compact))
    except Exception as e:
        return 'VIOLATION: a compact address that was just encoded does not decode (%s)' % type(e).__name__
    if back != (pid, addr, port):
        return 'VIOLATION: compact address does not round-trip'
    return 'ok'


# ------------------------------------------------------------------------------------------------ runner interface
def jobs(tier):
    out = []
    nmax = 6 if tier == 'quick' else 7        # 8 bytes: the four jobs alone exceed the 40-minute budget
    for n in range(0, nmax + 1):
        firsts = [None] if n < 5 else ['i', 'l', 'd', 'other']
        for first in firsts:
            out.append(dict(name=f'garbage-{n}' + (f'-{first}' if first else ''), family='garbage', fn='garbage',
                            args=(n, first), loop_bound=n + 3, max_depth=n + 14, cost=4 ** n,
                            bounds=dict(datagram_bytes=n, all_bytes_symbolic=True, first_byte_class=first or 'any'),
                            watchdog=3.0))
    for kind in KINDS:
        ln = len(valid_datagram(kind))
        out.append(dict(name=f'truncate-{kind}', family='truncate', fn='truncate', args=(kind,), loop_bound=ln + 3,
                        max_depth=40, cost=20, bounds=dict(valid_datagram=kind, cut='every length < %d' % ln), watchdog=3.0))
        nmut = [1] if tier == 'quick' else [1, 2]
        for m in nmut:
            if m == 1:
                windows = [(0, ln)]
            else:
                if kind not in ('ping', 'error', 'pong'):
                    continue
                step = 24
                windows = [(a, min(ln, a + step)) for a in range(0, ln, step)]
            for lo, hi in windows:
                out.append(dict(name=f'mutate{m}-{kind}-{lo}', family='mutate', fn='mutate', args=(kind, m, lo, hi),
                                loop_bound=ln + 3, max_depth=40, cost=300 if m == 1 else 5000,
                                bounds=dict(valid_datagram=kind, mutated_bytes=m, positions=f'[{lo},{hi})',
                                            replacement='arbitrary byte'), watchdog=3.0))
    for kind in ('ping', 'pong', 'error') if tier == 'quick' else KINDS:
        out.append(dict(name=f'typed-id-{kind}', family='typed', fn='typed_field', args=(kind,), loop_bound=400, max_depth=60, cost=40,
                        bounds=dict(valid_datagram=kind, replaced='rpc id or node id', by='list of ints / strings / lists or a dictionary',
                                    items='id length - 1, id length, id length + 1'), watchdog=3.0))
    for opener in (b'l', b'd', b'li0e', b'd1:a'):
        out.append(dict(name=f'nested-{opener.decode()}', family='nested', fn='nested', args=(opener, 1100, 2),
                        loop_bound=4000, max_depth=150, cost=50,
                        bounds=dict(shape='%r * 1100 + 2 arbitrary bytes' % opener), watchdog=5.0, replay=False))
    for kind in ('ping', 'store', 'findNode', 'findValue'):
        out.append(dict(name=f'roundtrip-request-{kind}', family='roundtrip', fn='rt_request', args=(kind,), loop_bound=400,
                        max_depth=40, cost=30, bounds=dict(message=kind, ids='symbolic bytes', ints='symbolic'),
                        must_reach=('ok',)))
    for shape, ns in (('pong', [0]), ('contacts', [0, 1, 2] if tier == 'quick' else [0, 1, 2, 16]),
                      ('value-key', [0, 1]), ('value-pages', [0, 2] if tier == 'quick' else [0, 1, 2, 8])):
        for n in ns:
            out.append(dict(name=f'roundtrip-response-{shape}-{n}', family='roundtrip', fn='rt_response', args=(shape, n),
                            loop_bound=3000, max_depth=40, cost=100 * (n + 1), bounds=dict(shape=shape, entries=n),
                            must_reach=('ok',)))
    for ncp in ([0, 1, 2] if tier == 'quick' else [0, 1, 2, 3]):
        out.append(dict(name=f'roundtrip-error-{ncp}', family='roundtrip-error', fn='rt_error', args=(ncp, 0, 0x10FFFF),
                        loop_bound=400, max_depth=40, cost=50 * 5 ** ncp,
                        bounds=dict(text_code_points=ncp, alphabet='every Unicode scalar value')))
    for lo, hi in (((0, 1500),) if tier == 'quick' else ((0, 1500), (1501, 70000))):
        out.append(dict(name=f'roundtrip-long-value-{lo}-{hi}', family='roundtrip', fn='rt_long_value', args=(lo, hi), loop_bound=400,
                        max_depth=40, cost=100, bounds=dict(value_length=f'{lo}..{hi} (opaque content)'), must_reach=('ok',)))
    out.append(dict(name='compact-address', family='roundtrip', fn='rt_compact', args=(), loop_bound=400, max_depth=40,
                    cost=20, bounds=dict(octets='0..255', port='-5..70000'), must_reach=('ok', 'ok-refused')))
    return out


def on_bound(job, nat):
    """A loop/recursion bound was hit symbolically: the native run under a watchdog decides."""
    if nat is None:
        return None
    if nat[0] == 'timeout':
        return 'VIOLATION: datagram_received does not return (non-terminating decode loop)'
    if nat[0] == 'ret' and isinstance(nat[1], str) and nat[1].startswith('VIOLATION'):
        return nat[1]
    if nat[0] == 'exc':
        return 'VIOLATION: %s escapes the harness' % nat[1].split(':')[0]
    return None


def finding_key(job, verdict, inputs, named):
    return f'{job.get("family")}|{verdict}'


def _negative_length_accepted(node):
    """Canary: the negative string length check is gone (b'l-3:' loops for ever)."""
    import ast
    for n in ast.walk(node):
        if isinstance(n, ast.If) and isinstance(n.test, ast.Compare) and isinstance(n.test.left, ast.Name) and n.test.left.id == 'length':
            n.test = ast.Constant(False)
            return True
    return False


def _index_error_escapes(node):
    """Canary: bdecode no longer turns IndexError (truncated input) into DecodeError."""
    import ast
    for n in ast.walk(node):
        if isinstance(n, ast.ExceptHandler) and isinstance(n.type, ast.Tuple) and len(n.type.elts) == 3:
            n.type.elts = n.type.elts[:2]
            return True
    return False


def _dict_keys_unsorted(node):
    """Canary: dictionaries are encoded in insertion order instead of sorted key order."""
    import ast
    for n in ast.walk(node):
        if isinstance(n, ast.Call) and isinstance(n.func, ast.Name) and n.func.id == 'sorted':
            n.func = ast.Name(id='list', ctx=ast.Load())
            return True
    return False


def _id_type_unchecked(node):
    """Canary: the datagram constructor accepts ids of any type again (the defect fixed in aac0340)."""
    import ast
    hit = False
    for n in ast.walk(node):
        if isinstance(n, ast.If) and 'isinstance' in ast.unparse(n.test):
            n.test = ast.Constant(False)
            hit = True
    return hit


CANARIES = [
    dict(name='id-type-unchecked', target='lbry.dht.serialization.datagram:KademliaDatagramBase.__init__', mutate=_id_type_unchecked,
         job=dict(family='typed', fn='typed_field', args=('pong',), loop_bound=400, max_depth=60, watchdog=3.0)),
    dict(name='negative-string-length', target='lbry.dht.serialization.bencoding:_bdecode', mutate=_negative_length_accepted,
         job=dict(family='garbage', fn='garbage', args=(4, None), loop_bound=7, max_depth=18)),
    dict(name='truncated-input-raises', target='lbry.dht.serialization.bencoding:bdecode', mutate=_index_error_escapes,
         job=dict(family='truncate', fn='truncate', args=('ping',), loop_bound=128, max_depth=40)),
]
