"""Regenerates /verif/MANIFEST.json from the harness modules' metadata (run: /venv/bin/python tools/gen_manifest.py)."""
import glob
import json
import os
import sys

sys.path.insert(0, os.path.dirname(os.path.dirname(os.path.abspath(__file__))))
import symvm.boot  # noqa
from symvm import runner

VERIF = symvm.boot.VERIF

NOT_APPLICABLE = {}
PENDING = 'solver-based harness not built yet in this tree (see DESIGN.md section 4 for the plan)'

BASELINE = ('cd /repo && env -u LBRY_SDK_VERIF /venv/bin/python -m pytest -ra -q -p no:cacheprovider --timeout=900 '
            '--continue-on-collection-errors')


def main():
    props = [json.loads(l) for l in open(os.path.join(VERIF, 'properties.jsonl'))]
    have = sorted(os.path.basename(p)[:-3] for p in glob.glob(os.path.join(VERIF, 'harness', 'C*.py')))
    checks, na = [], []
    for p in props:
        pid = p['id']
        if pid in have and pid not in NOT_APPLICABLE:
            mod = runner.load_harness(pid)
            checks.append(dict(
                property_id=pid,
                quick_cmd=f'./vcheck run {pid} --tier quick',
                thorough_cmd=f'./vcheck run {pid} --tier thorough',
                evidence_file=f'/verif/evidence/{pid}.json',
                replay_cmd_template='./vcheck replay {path}',
                engine='symvm',
                level_claimed=dict(category='model_checking', text=mod.LEVEL_TEXT,
                                   design_ref=getattr(mod, 'DESIGN_REF', 'DESIGN.md section 4 ' + pid)),
                level_note=mod.LEVEL_NOTE,
                technique=getattr(mod, 'TECHNIQUE', 'bounded symbolic execution of the real Python source (symvm) '
                                                    'decided by z3, every counterexample and path witness replayed natively'),
            ))
        else:
            na.append(dict(property_id=pid, reason=NOT_APPLICABLE.get(pid, PENDING)))
    manifest = dict(
        version=1,
        setup_cmd='./vcheck setup',
        hooks=dict(guard='LBRY_SDK_VERIF', enable='no source hooks are needed: all stubbing happens in the check process '
                   '(the variable is reserved and set by vcheck)', baseline_off_cmd=BASELINE, source_commits=[], add_only=True),
        engines=[
            dict(name='symvm', path='/verif/symvm', serves_properties=[c['property_id'] for c in checks],
                 kind_free_text='own bounded symbolic executor: interprets the AST of the real /repo functions '
                                '(inspect.getsource on the current tree) over symbolic ints/bools/bytes/strings, '
                                'decision-tree re-execution, z3 decides every branch and assertion; exhaustive within '
                                'stated bounds; native replay of every counterexample and path witness'),
            dict(name='z3', path='/verif/.deps (z3-solver 5.1.0 wheel)', serves_properties=[c['property_id'] for c in checks],
                 kind_free_text='SMT solver (linear integer arithmetic, bit-vectors)'),
            dict(name='cvc5', path='/verif/.deps (cvc5 1.4.0 wheel)', serves_properties=[],
                 kind_free_text='second SMT solver used to cross-check path-free lemma queries'),
        ],
        checks=checks,
        not_applicable=na,
        notes='Exit codes of every check: 0 held on everything explored (decision trees exhausted within the stated '
              'bounds, every obligation unsat); 1 + VIOLATION line for a natively replayed violation not listed in '
              'known_findings.json; 2 inconclusive (bound exceeded, unsupported construct, solver unknown); '
              '3 harness error (a counterexample or witness did not reproduce natively).',
    )
    with open(os.path.join(VERIF, 'MANIFEST.json'), 'w') as f:
        json.dump(manifest, f, indent=1)
    print('checks:', [c['property_id'] for c in checks], 'not_applicable:', [n['property_id'] for n in na])


if __name__ == '__main__':
    main()
