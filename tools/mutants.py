"""Mutation sweep (a development aid, not a registered check): generic first-order mutants of the /repo functions a
property's check interprets - comparison operators swapped, integer constants +-1, and/or swapped, `not` dropped, a
statement removed - each applied in memory (the same machinery as the canaries: mutated AST for the interpreter,
swapped code object for the native replay) and run through that property's quick jobs.  Prints, per mutant, whether
the check reports a violation (killed), ends inconclusive, or passes (survived: an equivalent mutant or a blind spot).
usage: /venv/bin/python tools/mutants.py PID [--only substr] [--max N] [--stride K]"""
import argparse
import ast
import copy
import importlib
import json
import os
import sys
import time

sys.path.insert(0, os.path.dirname(os.path.dirname(os.path.abspath(__file__))))
import symvm.boot  # noqa
from symvm import runner

SWAP = {ast.Lt: ast.LtE, ast.LtE: ast.Lt, ast.Gt: ast.GtE, ast.GtE: ast.Gt, ast.Eq: ast.NotEq, ast.NotEq: ast.Eq,
        ast.Is: ast.IsNot, ast.IsNot: ast.Is, ast.In: ast.NotIn, ast.NotIn: ast.In}


def sites(node):
    """(description, apply(node_copy) -> bool) for every mutation site of a function definition."""
    out = []
    walk = list(ast.walk(node))
    for idx, n in enumerate(walk):
        if isinstance(n, ast.Compare):
            for k, op in enumerate(n.ops):
                if type(op) in SWAP:
                    out.append((f'L{n.lineno} {type(op).__name__}->{SWAP[type(op)].__name__}', ('cmp', idx, k)))
        elif isinstance(n, ast.Constant) and isinstance(n.value, int) and not isinstance(n.value, bool) and abs(n.value) < 2 ** 40:
            out.append((f'L{n.lineno} const {n.value}->{n.value + 1}', ('const', idx, 1)))
            if n.value != 0:
                out.append((f'L{n.lineno} const {n.value}->{n.value - 1}', ('const', idx, -1)))
        elif isinstance(n, ast.BoolOp):
            out.append((f'L{n.lineno} {type(n.op).__name__} swapped', ('bool', idx, 0)))
        elif isinstance(n, ast.UnaryOp) and isinstance(n.op, ast.Not):
            out.append((f'L{n.lineno} not dropped', ('not', idx, 0)))
        elif isinstance(n, (ast.Expr, ast.Assign, ast.AugAssign, ast.Break, ast.Raise, ast.Return)) and hasattr(n, 'lineno') \
                and not (isinstance(n, ast.Expr) and isinstance(n.value, ast.Constant)):
            out.append((f'L{n.lineno} {type(n).__name__} removed', ('del', idx, 0)))
    return out


def make_mutate(spec):
    kind, idx, arg = spec

    def mutate(node):
        walk = list(ast.walk(node))
        n = walk[idx]
        if kind == 'cmp':
            n.ops[arg] = SWAP[type(n.ops[arg])]()
        elif kind == 'const':
            n.value = n.value + arg
        elif kind == 'bool':
            n.op = ast.Or() if isinstance(n.op, ast.And) else ast.And()
        elif kind == 'not':
            for parent in walk:
                for field, value in ast.iter_fields(parent):
                    if value is n:
                        setattr(parent, field, n.operand)
                        return True
                    if isinstance(value, list) and n in value:
                        value[value.index(n)] = n.operand
                        return True
            return False
        elif kind == 'del':
            for parent in walk:
                for field, value in ast.iter_fields(parent):
                    if isinstance(value, list) and n in value:
                        value[value.index(n)] = ast.Pass()
                        return True
            return False
        return True
    return mutate


def resolve(name):
    parts = name.split('.')
    for cut in range(len(parts) - 1, 0, -1):
        try:
            mod = importlib.import_module('.'.join(parts[:cut]))
        except ImportError:
            continue
        obj = mod
        try:
            for p in parts[cut:]:
                obj = getattr(obj, p)
        except AttributeError:
            return None
        return '.'.join(parts[:cut]) + ':' + '.'.join(parts[cut:]), obj
    return None


def main():
    ap = argparse.ArgumentParser()
    ap.add_argument('pid')
    ap.add_argument('--only')
    ap.add_argument('--max', type=int, default=40)
    ap.add_argument('--stride', type=int, default=1)
    ap.add_argument('--budget', type=float, default=600)
    a = ap.parse_args()
    mod = runner.load_harness(a.pid)
    ev = json.load(open(os.path.join(symvm.boot.VERIF, 'evidence', a.pid + '.json')))
    funcs = [f for f in ev['coverage']['functions_encoded'] if f.startswith('lbry.') and (not a.only or a.only in f)]
    from symvm.vm import VM
    probe = VM(interp_prefixes=('lbry', 'harness'))
    todo = []
    for name in funcs:
        r = resolve(name)
        if r is None:
            continue
        target, obj = r
        fn = obj
        while hasattr(fn, '__wrapped__'):
            fn = fn.__wrapped__
        if isinstance(fn, (staticmethod, classmethod)):
            fn = fn.__func__
        if isinstance(fn, property):
            fn = fn.fget
        fn = getattr(fn, '__func__', fn)
        if not hasattr(fn, '__code__') or fn.__closure__ or fn.__name__ in ('__init__', '__repr__', '__str__'):
            continue
        try:
            node = copy.deepcopy(probe.get_ast(fn))
        except Exception:
            continue
        for desc, spec in sites(node):
            todo.append((target, desc, spec))
    todo = todo[::a.stride][:a.max]
    print(f'{a.pid}: {len(funcs)} functions, {len(todo)} mutants', flush=True)
    jobs = list(mod.jobs('quick'))
    tally = {}
    for target, desc, spec in todo:
        t0 = time.time()
        tasks = []
        for j in jobs:
            job = dict(j)
            job['mutation'] = dict(name=desc, target=target, mutate=make_mutate(spec))
            job.pop('must_reach', None)
            tasks.append((a.pid, job, dict(seed=0, deadline=time.time() + a.budget)))
        res = runner.run_pool(tasks)
        viol = sorted({v['verdict'] for r in res for v in r['violations']})
        herr = [x for r in res for x in r['harness_errors']]
        inc = [x for r in res for x in r['inconclusive']]
        if viol and not any('does not replay' in x for x in herr):
            verdict = 'killed'
        elif herr or inc:
            verdict = 'inconclusive'
        else:
            verdict = 'SURVIVED'
        tally[verdict] = tally.get(verdict, 0) + 1
        print(f'{verdict:12s} {target} {desc}  [{time.time() - t0:.0f}s] {(viol or herr or inc or [""])[0][:110]}', flush=True)
    print(a.pid, tally)


if __name__ == '__main__':
    main()
