"""Evaluate seeded changes: for each /tmp/seed/<ID>/_seed/mN.diff verify the demonstration (passes on the clean worktree,
fails with the change, 39 baseline tests still pass), run the property's check against the changed worktree
(VERIF_REPO=<worktree>; same effect as `git -C /repo apply`, without disturbing /repo) and store everything under
/verif/seeded/<ID>-mN/ (patch.diff, demo.py, notes.md, meta.json).  usage: seed_eval.py <ID> [tier]"""
import json
import os
import shutil
import subprocess
import sys
import time

VERIF = os.path.dirname(os.path.dirname(os.path.abspath(__file__)))


def sh(cmd, cwd=None, env=None, timeout=3600):
    p = subprocess.run(cmd, shell=True, cwd=cwd, env=env, capture_output=True, text=True, timeout=timeout)
    return p.returncode, (p.stdout + p.stderr)


def main():
    pid = sys.argv[1]
    tiers = sys.argv[2:] or ['quick']
    wt = f'/tmp/seed/{pid}'
    seeds = sorted(f[:-5] for f in os.listdir(f'{wt}/_seed') if f.endswith('.diff'))
    for m in seeds:
        # a stored seed is identified by its patch: re-evaluating one rewrites its directory, a new one gets the next free number
        patch = open(f'{wt}/_seed/{m}.diff').read()
        dst = None
        n = 1
        while os.path.isdir(f'{VERIF}/seeded/{pid}-m{n}'):
            if open(f'{VERIF}/seeded/{pid}-m{n}/patch.diff').read() == patch:
                dst = f'{VERIF}/seeded/{pid}-m{n}'
                break
            n += 1
        dst = dst or f'{VERIF}/seeded/{pid}-m{n}'
        os.makedirs(dst, exist_ok=True)
        shutil.copy(f'{wt}/_seed/{m}.diff', f'{dst}/patch.diff')
        shutil.copy(f'{wt}/_seed/{m}_demo.py', f'{dst}/demo.py')
        if os.path.exists(f'{wt}/_seed/{m}_notes.md'):
            shutil.copy(f'{wt}/_seed/{m}_notes.md', f'{dst}/notes.md')
        for extra in os.listdir(f'{wt}/_seed'):            # helper modules shared by the demonstrations
            if extra.endswith('.py') and not extra.endswith('_demo.py'):
                shutil.copy(f'{wt}/_seed/{extra}', f'{dst}/{extra}')
        sh('git checkout -- .', cwd=wt)
        env = dict(os.environ, PYTHONDONTWRITEBYTECODE='1', PROTOCOL_BUFFERS_PYTHON_IMPLEMENTATION='python')
        clean_rc, _ = sh(f'/venv/bin/python _seed/{m}_demo.py', cwd=wt, env=env)
        rc, out = sh(f'git apply _seed/{m}.diff', cwd=wt)
        assert rc == 0, out
        try:
            mut_rc, mut_out = sh(f'/venv/bin/python _seed/{m}_demo.py', cwd=wt, env=env)
            _, tests = sh('/venv/bin/python -m pytest -ra -q -p no:cacheprovider --timeout=900 --continue-on-collection-errors '
                          '2>&1 | tail -1', cwd=wt, env=env)
            runs = []
            detected = False
            for tier in tiers:
                t0 = time.time()
                rc, out = sh(f'./vcheck run {pid} --tier {tier} --no-evidence', cwd=VERIF, env=dict(env, VERIF_REPO=wt), timeout=7200)
                lines = [l for l in out.splitlines() if l.startswith(('VIOLATION', '  VIOLATION', 'KNOWN', 'INCONCLUSIVE', 'HARNESS', pid + ' '))]
                runs.append(dict(tier=tier, exit=rc, wall_s=round(time.time() - t0, 1), output=[l[:400] for l in lines[:12]]))
                if rc == 1:
                    detected = True
                    break
        finally:
            sh('git checkout -- .', cwd=wt)
        meta = dict(property=pid, seed=os.path.basename(dst).split('-')[1], breaks=open(f'{dst}/notes.md').read() if os.path.exists(f'{dst}/notes.md') else '',
                    demo_exit_clean=clean_rc, demo_exit_with_change=mut_rc, baseline_tests_with_change=tests.strip()[-60:],
                    confirmed=(clean_rc == 0 and mut_rc != 0 and '39 passed' in tests),
                    checks=runs, detected=detected,
                    how_run='patch applied in a scratch git worktree of /repo HEAD; check run with VERIF_REPO=<worktree> ./vcheck run '
                            f'{pid} --tier <tier> --no-evidence; worktree restored with git checkout -- .')
        json.dump(meta, open(f'{dst}/meta.json', 'w'), indent=1)
        print(pid, os.path.basename(dst), 'confirmed' if meta['confirmed'] else 'NOT-CONFIRMED', 'DETECTED' if detected else 'missed',
              [(r['tier'], r['exit'], r['wall_s']) for r in runs], flush=True)


if __name__ == '__main__':
    main()
